"""C15 — covariance kernels are valid and their gradients match their values.

Contracts (sidecar; ciderpress/models/kernels.py and dft_kernel.py are re-parsed from /repo on every run; sklearn's base
kernels are replaced by their assumed contract model, specs/models/sklearn_gp_kernels.py):

  for every leaf kernel class K (all classes of the module that define __call__/k_and_deriv are enumerated; one without a
  constructor recipe is reported), symbolic sample matrices X, Y and symbolic hyper-parameters in their declared domain:
    K.__call__(X, Y)          ensures  k[i, j] is a function of (X[i], Y[j]) only;  k(X, Y)[i, j] = k(Y, X)[j, i];
                                       k(X)[i, j] = k(X, Y)[i, j] at Y = X
    K.diag(X)                 ensures  diag[i] = k(X, X)[i, i]
    K.k_and_deriv(X, Y)       ensures  k = K(X, Y);  dk[i, j, f] = d k[i, j] / d X[i, f]   (derivative of the value term itself);
                                       with Y = None:  dk = (d k(X, Y)/dX) at Y = X  (the documented convention)
    K.__call__(X, eval_gradient=True)
                              ensures  gradient columns = theta_p * d k / d theta_p for the non-fixed hyper-parameters in
                                       attribute-name order (sklearn's theta layout), fixed ones absent — for every fixed/free pattern
    PSD certificate           ensures  k(X, Y)[i, j] = a closed form built from PSD-closed constructors (sum, product, non-negative
                                       scaling, elementary symmetric polynomials, feature maps) over PSD base kernels;
                                       coefficients non-negative by the declared bounds.  PSD then follows by the cited closure lemmas.
  composites (DiffSum, DiffProduct, DiffExponentiation, DiffTransform) with *abstract* operands satisfying the k_and_deriv contract:
                              sum / product / power / chain rule
  _SubsetMixin, _SpinSymMixin over every base they are combined with in the module: restriction / block-sum algebra, scatter of
                              the derivative, exchange symmetry, and the re-entrancy flag restored
  DFTKernel.get_k / get_kctrl / get_k_and_deriv (NPOL, SEP, POL): POL formula k_aa k_bb + k_ab k_ba, its derivative, spin exchange.

Bounds: `order` <= 4 for the additive kernels (DiffPolyKernel <= 6); sample/feature extents are generic small constants
(rows are independent — proved — so the row count is immaterial; the feature count is fixed per recipe: bounded in nfeat).
"""
import os
import sys

sys.path.insert(0, os.path.dirname(os.path.dirname(os.path.abspath(__file__))))

import itertools
import warnings
import numpy as np
from fractions import Fraction as Q

warnings.filterwarnings("ignore")

from pyvc import terms as tm
from pyvc import vc
from pyvc.framework import run_property
from contracts.common import *
from contracts.kernelcommon import *

NX = 2
NY = 2
FQ = lambda cls, *ms: ["%s:%s.%s" % (KMOD, cls, m) for m in ms]


def y_to_x(nf):
    return {tm.var("y_%d_%d" % (i, f)): tm.var("x_%d_%d" % (i, f)) for i in range(NY) for f in range(nf)}


def one_return(ctx, name, paths, fq):
    ret, exc = returned(paths)
    if len(ret) != 1:
        return None, ret, exc
    return ret[0][0], ret, exc


def call_kernel(it, kern, X, Y=None, **kw):
    return all_paths(it, lambda: it.call(kern, [X.copy()] + ([Y.copy()] if Y is not None else []), dict(kw)))


def esym(vals, n):
    """Elementary symmetric polynomial e_n (definition: sum over n-subsets of products)."""
    if n == 0:
        return tm.ONE
    return tm.mk_add(*[tm.mk_mul(*c) for c in itertools.combinations(vals, n)]) if n <= len(vals) else tm.ZERO


def certificate(recipe, x, y):
    """PSD certificate form of k(x, y) for one pair of rows (lists of terms).  None: no certificate (reported)."""
    cls = recipe.cls
    hp = recipe.hparams
    nf = len(x)
    E = lambda u: tm.mk_fn("exp", u)
    if cls == "DiffRBF":
        lv = hp["length_scale"][0]
        l = lambda f: lv[f] if len(lv) > 1 else lv[0]
        return tm.mk_mul(*[E(Q(-1, 2) * ((x[f] - y[f]) / l(f)) ** 2) for f in range(nf)]), "product over features of one-dimensional Gaussian kernels"
    if cls == "DiffAntisymRBF":
        lv = hp["length_scale"][0]
        g = lambda a, b: E(Q(-1, 2) * ((a - b) / lv[0]) ** 2)
        rest = tm.mk_mul(*[E(Q(-1, 2) * ((x[f] - y[f]) / lv[f - 1]) ** 2) for f in range(2, nf)])
        return (g(x[0], y[0]) - g(x[0], y[1]) - g(x[1], y[0]) + g(x[1], y[1])) * rest, "<phi(x0)-phi(x1), phi(y0)-phi(y1)> times a Gaussian product"
    if cls == "DiffLinearKernel":
        return tm.mk_add(*[x[f] * y[f] for f in range(nf)]), "Euclidean inner product"
    if cls == "DiffConstantKernel":
        return hp["constant_value"][0][0], "non-negative constant"
    if cls == "DiffPolyKernel":
        gv = hp["gamma"][0]
        g = lambda f: gv[f] if len(gv) > 1 else gv[0]
        dot = tm.mk_add(*[g(f) * x[f] * y[f] for f in range(nf)])
        args, kw = recipe.build()
        terms_ = [tm.ONE]
        fac = 1
        for n in range(1, kw["order"] + 1):
            fac *= n
            terms_.append(dot ** n / (fac if kw["factorial"] else 1))
        return tm.mk_add(*terms_), "polynomial with non-negative coefficients of a weighted inner product"
    if cls in ("DiffARBF", "DiffARBFV2", "DiffAddLLRBF", "DiffAddRQ"):
        lv = hp["length_scale"][0]
        sv = hp["scale"][0]
        l = lambda f: lv[f] if len(lv) > 1 else lv[0]
        args, kw = recipe.build()
        k0 = []
        for f in range(nf):
            d = x[f] - y[f]
            if cls in ("DiffARBF", "DiffARBFV2"):
                k0.append(E(Q(-1, 2) * (d / l(f)) ** 2))
            elif cls == "DiffAddLLRBF":
                k0.append((1 + x[f] * y[f] / (kw["alpha"] * l(f) ** 2)) * E(Q(-1, 2) * (d / l(f)) ** 2))
            else:
                k0.append((1 + d * d / (2 * kw["alpha"] * l(f) ** 2)) ** (-kw["alpha"]))
        return tm.mk_add(*[sv[n] * esym(k0, n) for n in range(kw["order"] + 1)]), "sum_n scale_n e_n(k0_1..k0_d) with PSD one-dimensional factors"
    return None, ""


def unit_leaf(recipe):
    def run(ctx):
        it = ctx.interp
        mod = setup_interp(it)
        ctx.assume(SK_ASSUMPTION)
        cls, nf, H = recipe.cls, recipe.nfeat, list(recipe.hyps)
        X = sym_array("x", (NX, nf))
        Y = sym_array("y", (NY, nf))
        kern = construct(it, mod, recipe)
        fq_call, fq_diag, fq_kd = FQ(cls, "__call__"), FQ(cls, "diag"), FQ(cls, "k_and_deriv")
        white = cls == "DiffWhiteKernel"
        # ---- value: K(X, Y), K(Y, X), K(X)
        KXY, _, exc = one_return(ctx, "call", call_kernel(it, kern, X, Y), fq_call)
        if KXY is None:
            ctx.holds("call(X,Y) returns on exactly one path", False, "paths: %s" % [exc_name(p) for p in exc], fq_call)
            return
        KYX, _, _ = one_return(ctx, "call", call_kernel(it, kern, Y, X), fq_call)
        KX, _, _ = one_return(ctx, "call", call_kernel(it, kern, X), fq_call)
        ctx.holds("shape k(X,Y)", KXY.shape == (NX, NY) and KYX is not None and KYX.shape == (NY, NX) and KX is not None and KX.shape == (NX, NX), "", fq_call)
        sub = y_to_x(nf)
        for i in range(NX):
            for j in range(NY):
                fv = set(u.args[0] for u in tm.free_vars(tm.lift(KXY[i, j])))
                foreign = [v for v in fv if (v.startswith("x_") and not v.startswith("x_%d_" % i)) or (v.startswith("y_") and not v.startswith("y_%d_" % j))]
                ctx.holds("k[%d,%d] depends on rows X[%d], Y[%d] only" % (i, j, i, j), not foreign, "reads %s" % foreign, fq_call)
                ctx.equal("symmetry k(X,Y)[%d,%d] = k(Y,X)[%d,%d]" % (i, j, j, i), H, KXY[i, j], KYX[j, i], fq_call)
                if not white:
                    ctx.equal("k(X)[%d,%d] = k(X,Y)[%d,%d] at Y=X" % (i, j, i, j), H, KX[i, j], tm.substitute(tm.lift(KXY[i, j]), sub), fq_call)
        ctx.canary("symmetry canary", H, KXY[0, 1], 2 * tm.lift(KYX[1, 0]) + 1)
        # ---- diag
        dpaths = all_paths(it, lambda: it.call_method(kern, "diag", [X.copy()]))
        D, _, exc = one_return(ctx, "diag", dpaths, fq_diag)
        if D is None:
            ctx.holds("diag returns", False, "paths: %s" % [exc_name(p) for p in exc], fq_diag)
        else:
            for i in range(NX):
                ctx.equal("diag(X)[%d] = k(X,X)[%d,%d]" % (i, i, i), H, D[i], KX[i, i], fq_diag)
        # ---- PSD certificate
        if not white:
            for (i, j) in ((0, 1), (1, 0)):
                cert, why = certificate(recipe, [X[i, f] for f in range(nf)], [Y[j, f] for f in range(nf)])
                if cert is None:
                    ctx.undecided("psd-certificate", "no PSD certificate form for class %s" % cls, fq_call)
                    break
                ctx.equal("psd-certificate k[%d,%d] = %s" % (i, j, why), H, KXY[i, j], cert, fq_call)
        else:
            for i in range(NX):
                for j in range(NX):
                    ctx.equal("white k(X)[%d,%d] = noise * delta_ij" % (i, j), H, KX[i, j], recipe.hparams["noise_level"][0][0] if i == j else tm.ZERO, fq_call)
        # ---- input gradient
        kd = all_paths(it, lambda: it.call_method(kern, "k_and_deriv", [X.copy(), Y.copy()]))
        ret, exc = returned(kd)
        if not ret:
            names = sorted(set(exc_name(p) for p in exc))
            if names == ["NotImplementedError"]:
                ctx.assume("%s.k_and_deriv is declared unsupported (raises NotImplementedError)" % cls)
            else:
                ctx.holds("k_and_deriv(X,Y) returns input gradients (does not raise for a valid configuration)", False,
                          "raises %s for every input: %s" % (names, [str(p[1])[:160] for p in exc][:1]), fq_kd, replay=replay_raises(recipe, "k_and_deriv"))
        else:
            ctx.holds("k_and_deriv(X,Y) returns on one path", len(ret) == 1, "", fq_kd)
            k, dk = ret[0][0]
            ctx.holds("shape dk", k.shape == (NX, NY) and dk.shape == (NX, NY, nf), "%s %s" % (k.shape, dk.shape), fq_kd)
            for i in range(NX):
                for j in range(NY):
                    ctx.equal("k_and_deriv value [%d,%d] = k(X,Y)" % (i, j), H, k[i, j], KXY[i, j], fq_kd)
                    for f in range(nf):
                        ctx.equal("dspec dk[%d,%d,%d] = d k/dX[%d,%d]" % (i, j, f, i, f), H, dk[i, j, f], tm.diff(tm.lift(KXY[i, j]), X[i, f]), fq_kd,
                                  replay=replay_dspec(recipe))
            ctx.canary("dspec canary", H, dk[0, 1, 0], 2 * tm.diff(tm.lift(KXY[0, 1]), X[0, 0]) + 1)
            kd1 = all_paths(it, lambda: it.call_method(kern, "k_and_deriv", [X.copy()]))
            ret1, _ = returned(kd1)
            if len(ret1) == 1 and not white:
                k1, dk1 = ret1[0][0]
                for i in range(NX):
                    for j in range(NX):
                        for f in range(nf):
                            ctx.equal("dspec(Y=None) dk[%d,%d,%d] = (d k(X,Y)/dX[%d,%d]) at Y=X" % (i, j, f, i, f), H, dk1[i, j, f],
                                      tm.substitute(tm.diff(tm.lift(KXY[i, j]), X[i, f]), sub), fq_kd)
            elif not white:
                ctx.holds("k_and_deriv(X) returns on one path", False, "", fq_kd)
        # ---- hyper-parameter gradients for every fixed/free pattern
        names = sorted(recipe.hparams)
        for r in range(len(names) + 1):
            for fixed in itertools.combinations(names, r):
                kf = construct(it, mod, recipe, fixed)
                tag = "theta-gradient[fixed=%s]" % ",".join(fixed)
                gp = call_kernel(it, kf, X, eval_gradient=True)
                ret, exc = returned(gp)
                if not ret:
                    nm = sorted(set(exc_name(p) for p in exc))
                    if nm == ["NotImplementedError"]:
                        ctx.assume("%s.__call__(eval_gradient=True) is declared unsupported (raises NotImplementedError)" % cls)
                    else:
                        ctx.holds("%s returns (does not raise for a valid configuration)" % tag, False, "raises %s: %s" % (nm, [str(p[1])[:160] for p in exc][:1]), fq_call,
                                  replay=replay_raises(recipe, "theta", fixed))
                    continue
                Kg, G = ret[0][0]
                want = []
                for hp in names:
                    if hp in fixed:
                        continue
                    for th in recipe.hparams[hp][0]:
                        want.append((hp, th))
                ctx.holds("%s column count = number of free hyper-parameters (%d)" % (tag, len(want)), G.shape == (NX, NX, len(want)), "shape %s" % (G.shape,), fq_call)
                if G.shape != (NX, NX, len(want)):
                    continue
                for i in range(NX):
                    for j in range(NX):
                        ctx.equal("%s value[%d,%d]" % (tag, i, j), H, Kg[i, j], KX[i, j], fq_call)
                        for p, (hp, th) in enumerate(want):
                            ctx.equal("%s G[%d,%d,%d] = %s * d k/d %s" % (tag, i, j, p, th.args[0], th.args[0]), H, G[i, j, p], th * tm.diff(tm.lift(KX[i, j]), th), fq_call,
                                      replay=replay_theta(recipe, fixed))
                if want:
                    ctx.canary(tag + " canary", H, G[0, 1, 0], 2 * want[0][1] * tm.diff(tm.lift(KX[0, 1]), want[0][1]) + 1)
    return run


# ------------------------------------------------------------------ native replays
def _native_kernel(recipe, env, fixed=()):
    import ciderpress.models.kernels as K
    args, kw = recipe.build()
    out = {}
    for k, v in kw.items():
        if isinstance(v, np.ndarray):
            out[k] = np.array([float(tm.evaluate(tm.lift(x), env)) for x in v])
        elif isinstance(v, list):
            out[k] = [float(tm.evaluate(tm.lift(x), env)) for x in v]
        elif isinstance(v, tm.T):
            out[k] = float(tm.evaluate(v, env))
        else:
            out[k] = v
    for hp in fixed:
        out[recipe.hparams[hp][1]] = "fixed"
    return getattr(K, recipe.cls)(**out)


def _env_from(wit, recipe):
    env = env_floats(wit or {})
    rng = np.random.RandomState(7)
    for hp, (syms, _) in recipe.hparams.items():
        for s in syms:
            env.setdefault(s.args[0], 0.5 + rng.rand())
    env.setdefault("alpha", 1.3)
    return env


def replay_dspec(recipe):
    def replay(wit):
        env = _env_from(wit, recipe)
        kern = _native_kernel(recipe, env)
        nf = recipe.nfeat
        rng = np.random.RandomState(11)
        X = np.array([[env.get("x_%d_%d" % (i, f), rng.rand()) for f in range(nf)] for i in range(NX)])
        Y = np.array([[env.get("y_%d_%d" % (i, f), rng.rand()) for f in range(nf)] for i in range(NY)])
        k, dk = kern.k_and_deriv(X, Y)
        bad = []
        for i in range(NX):
            for f in range(nf):
                def val(t):
                    Xp = X.copy()
                    Xp[i, f] = t
                    return kern(Xp, Y)[i]
                fd = central_diff(val, X[i, f], 1e-3)
                for j in range(NY):
                    if abs(fd[j] - dk[i, j, f]) > 1e-6 * (1 + abs(fd[j])):
                        bad.append({"i": i, "j": j, "f": f, "k_and_deriv": float(dk[i, j, f]), "finite_difference_of___call__": float(fd[j])})
        return {"reproduced": bool(bad), "class": recipe.cls, "recipe": recipe.name, "mismatches": bad[:6]}
    return replay


def replay_raises(recipe, what, fixed=()):
    def replay(wit):
        env = _env_from(wit, recipe)
        kern = _native_kernel(recipe, env, fixed)
        rng = np.random.RandomState(11)
        X, Y = rng.rand(NX, recipe.nfeat), rng.rand(NY, recipe.nfeat)
        try:
            if what == "k_and_deriv":
                kern.k_and_deriv(X, Y)
            else:
                kern(X, eval_gradient=True)
        except NotImplementedError:
            return {"reproduced": False, "note": "NotImplementedError"}
        except Exception as e:
            return {"reproduced": True, "class": recipe.cls, "recipe": recipe.name, "raised": "%s: %s" % (type(e).__name__, e)}
        return {"reproduced": False}
    return replay


def replay_theta(recipe, fixed):
    def replay(wit):
        env = _env_from(wit, recipe)
        kern = _native_kernel(recipe, env, fixed)
        nf = recipe.nfeat
        rng = np.random.RandomState(11)
        X = np.array([[env.get("x_%d_%d" % (i, f), rng.rand()) for f in range(nf)] for i in range(NX)])
        K0, G = kern(X, eval_gradient=True)
        th0 = kern.theta.copy()
        bad = []
        for p in range(len(th0)):
            def val(t):
                th = th0.copy()
                th[p] = t
                return kern.clone_with_theta(th)(X)
            fd = central_diff(val, th0[p], 1e-3)
            if G.shape[2] != len(th0) or np.max(np.abs(fd - G[:, :, p])) > 1e-6 * (1 + np.max(np.abs(fd))):
                bad.append({"theta_index": p, "max_abs_diff": float(np.max(np.abs(fd - G[:, :, p]))) if G.shape[2] == len(th0) else "shape"})
        return {"reproduced": bool(bad), "class": recipe.cls, "recipe": recipe.name, "mismatches": bad[:6]}
    return replay


# ------------------------------------------------------------------ composites with abstract operands
def abstract_kernel(mod, name, nf, it):
    """An operand satisfying the k_and_deriv contract: k[i,j] = K(x_i, y_j), dk[i,j,f] = D_f K(x_i, y_j) (uninterpreted)."""
    kc = ClassV("_Abstract_" + name, [], mod)
    o = Obj(kc)

    def kfun(X, Y=None, eval_gradient=False):
        Yv = X if Y is None else Y
        k = np.empty((X.shape[0], Yv.shape[0]), dtype=object)
        for i in range(X.shape[0]):
            for j in range(Yv.shape[0]):
                k[i, j] = tm.mk_fn(name, *([tm.lift(v) for v in X[i]] + [tm.lift(v) for v in Yv[j]]))
        return k

    def kd(X, Y=None):
        Yv = X if Y is None else Y
        k = kfun(X, Yv)
        dk = np.empty((X.shape[0], Yv.shape[0], X.shape[1]), dtype=object)
        for i in range(X.shape[0]):
            for j in range(Yv.shape[0]):
                for f in range(X.shape[1]):
                    dk[i, j, f] = tm.mk_fn("D%d_%s" % (f, name), *([tm.lift(v) for v in X[i]] + [tm.lift(v) for v in Yv[j]]))
        return k, dk
    o.fields["k_and_deriv"] = Builtin("abs.k_and_deriv", kd)
    o.fields["__call__"] = Builtin("abs.__call__", kfun)
    o.fields["diag"] = Builtin("abs.diag", lambda X: np.array([kfun(X)[i, i] for i in range(X.shape[0])], dtype=object))
    return o, kfun, kd


def unit_composites(ctx):
    it = ctx.interp
    mod = setup_interp(it)
    ctx.assume(SK_ASSUMPTION)
    nf = 3
    X = sym_array("x", (NX, nf))
    Y = sym_array("y", (NY, nf))
    A, kA, dA = abstract_kernel(mod, "KA", nf, it)
    B, kB, dB = abstract_kernel(mod, "KB", nf, it)
    a, da = dA(X, Y)
    b, db = dB(X, Y)
    for cname, want, dwant in (
        ("DiffSum", lambda i, j: a[i, j] + b[i, j], lambda i, j, f: da[i, j, f] + db[i, j, f]),
        ("DiffProduct", lambda i, j: a[i, j] * b[i, j], lambda i, j, f: da[i, j, f] * b[i, j] + a[i, j] * db[i, j, f]),
    ):
        obj = it.call(mod.ns[cname], [A, B], {})
        k, dk = it.call_method(obj, "k_and_deriv", [X.copy(), Y.copy()])
        fq = FQ(cname, "k_and_deriv")
        ctx.holds("%s shapes" % cname, k.shape == (NX, NY) and dk.shape == (NX, NY, nf), "", fq)
        for i in range(NX):
            for j in range(NY):
                ctx.equal("%s value[%d,%d]" % (cname, i, j), [], k[i, j], want(i, j), fq)
                for f in range(nf):
                    ctx.equal("%s rule dk[%d,%d,%d]" % (cname, i, j, f), [], dk[i, j, f], dwant(i, j, f), fq)
        ctx.canary("%s canary" % cname, [], dk[0, 1, 0], dwant(0, 1, 0) + da[0, 1, 0])
    for e in (2, 3, tm.var("p")):
        obj = it.call(mod.ns["DiffExponentiation"], [A, e], {})
        k, dk = it.call_method(obj, "k_and_deriv", [X.copy(), Y.copy()])
        fq = FQ("DiffExponentiation", "k_and_deriv")
        hy = [tm.mk_lt(tm.ZERO, a[i, j]) for i in range(NX) for j in range(NY)] if isinstance(e, tm.T) else []
        for i in range(NX):
            for j in range(NY):
                ctx.equal("DiffExponentiation[%s] value[%d,%d]" % (e, i, j), hy, k[i, j], tm.lift(a[i, j]) ** e, fq)
                for f in range(nf):
                    ctx.equal("DiffExponentiation[%s] power rule dk[%d,%d,%d]" % (e, i, j, f), hy, dk[i, j, f], e * tm.lift(a[i, j]) ** (e - 1) * da[i, j, f], fq)
    # operator overloads build the Diff composites (so that nestings stay differentiable)
    leaf = it.call(mod.ns["DiffRBF"], [], {"length_scale": tm.var("l")})
    for op, cname in (("__add__", "DiffSum"), ("__radd__", "DiffSum"), ("__mul__", "DiffProduct"), ("__rmul__", "DiffProduct")):
        for other in (A, Q(2)):
            r = it.call_method(leaf, op, [other])
            ctx.holds("DiffKernelMixin.%s(%s) builds %s" % (op, "kernel" if other is A else "number", cname), isinstance(r, Obj) and r.cls.name == cname, repr(r), FQ("DiffKernelMixin", op))
    r = it.call_method(leaf, "__pow__", [2])
    ctx.holds("DiffKernelMixin.__pow__ builds DiffExponentiation", isinstance(r, Obj) and r.cls.name == "DiffExponentiation", repr(r), FQ("DiffKernelMixin", "__pow__"))
    # DiffTransform: chain rule through X -> ((X - avg) / std) M
    n1 = 2
    M = sym_array("m", (nf, n1))
    for use_std, use_avg in ((False, False), (True, False), (True, True), (False, True)):
        std = sym_array("sd", (nf,)) if use_std else None
        avg = sym_array("av", (nf,)) if use_avg else None
        C, kC, dC = abstract_kernel(mod, "KC", n1, it)
        obj = it.call(mod.ns["DiffTransform"], [C, M], {"std": std, "avg": avg})
        fq = FQ("DiffTransform", "k_and_deriv", "_transform", "_transform_bwd")
        Xa, Ya, Xb, Yb = X.copy(), Y.copy(), X.copy(), Y.copy()
        k, dk = it.call_method(obj, "k_and_deriv", [Xa, Ya])
        kc = it.call(obj, [Xb, Yb], {})
        tag0 = "DiffTransform[std=%s,avg=%s]" % (use_std, use_avg)
        # frame: the caller's sample arrays are not rescaled in place (a second evaluation on the same arrays sees the same inputs)
        ctx.holds("%s k_and_deriv leaves X and Y unchanged" % tag0, same_elements(Xa, X) and same_elements(Ya, Y), "", fq, replay=replay_transform_frame(use_std, use_avg))
        ctx.holds("%s __call__ leaves X and Y unchanged" % tag0, same_elements(Xb, X) and same_elements(Yb, Y), "", fq, replay=replay_transform_frame(use_std, use_avg))
        dg = it.call_method(obj, "diag", [Xb])
        ctx.holds("%s diag leaves X unchanged" % tag0, same_elements(Xb, X), "", fq)

        def tr(Z):
            out = np.empty((Z.shape[0], n1), dtype=object)
            for i in range(Z.shape[0]):
                for q in range(n1):
                    out[i, q] = tm.mk_add(*[((Z[i, f] - (avg[f] if use_avg else 0)) / (std[f] if use_std else 1)) * M[f, q] for f in range(nf)])
            return out
        kk, dkk = dC(tr(X), tr(Y))
        hy = [tm.mk_lt(tm.ZERO, s) for s in std] if use_std else []
        tag = "DiffTransform[std=%s,avg=%s]" % (use_std, use_avg)
        for i in range(NX):
            for j in range(NY):
                ctx.equal("%s value[%d,%d]" % (tag, i, j), hy, k[i, j], kk[i, j], fq)
                ctx.equal("%s __call__[%d,%d]" % (tag, i, j), hy, kc[i, j], kk[i, j], fq)
                for f in range(nf):
                    chain = tm.mk_add(*[dkk[i, j, q] * M[f, q] / (std[f] if use_std else 1) for q in range(n1)])
                    ctx.equal("%s chain rule dk[%d,%d,%d]" % (tag, i, j, f), hy, dk[i, j, f], chain, fq)
        ctx.canary("%s canary" % tag, hy, dk[0, 0, 0], 2 * tm.mk_add(*[dkk[0, 0, q] * M[0, q] / (std[0] if use_std else 1) for q in range(n1)]) + 1)


def replay_transform_frame(use_std, use_avg):
    def replay(wit):
        import ciderpress.models.kernels as K
        rng = np.random.RandomState(0)
        X, Y = rng.rand(3, 2), rng.rand(4, 2)
        kern = K.DiffTransform(K.DiffRBF(length_scale=np.array([1.0, 1.0])), np.eye(2), std=np.array([2.0, 3.0]) if use_std else None, avg=np.array([0.1, 0.2]) if use_avg else None)
        X0, Y0 = X.copy(), Y.copy()
        kern(X, Y)
        kern.k_and_deriv(X, Y)
        return {"reproduced": bool(np.max(np.abs(X - X0)) > 0 or np.max(np.abs(Y - Y0)) > 0), "max_change_of_X": float(np.max(np.abs(X - X0)))}
    return replay


# ------------------------------------------------------------------ additive kernels, modular: k0 contract + abstract machinery
ADDITIVE = ("DiffARBFV2", "DiffAddLLRBF", "DiffAddRQ")


def unit_k0(cls, mapping=False):
    """Contract of the per-dimension factor of one DiffAdditiveMixin subclass:
         k0[i,j,f] = phi(x_if, y_jf, l_f);  _get_k0_dk0_train: dk0 = l_f * d k0/d l_f;  _get_k0_dk0_eval: dk0 = d k0/d x_if;
         get_k0_for_mapping(x, y, l)[i,j] = phi(x_i, y_j, l)  (the factor used for mapping is the factor the kernel uses, C11)."""
    def run(ctx):
        it = ctx.interp
        mod = setup_interp(it)
        nf = 2
        for iso in (False, True):
            r = [q for q in leaf_recipes() if q.cls == cls and q.order == 2 and ("iso" in q.name.split("/")) == iso][0]
            args, kw = r.build()
            lv = r.hparams["length_scale"][0]
            if not iso:
                lv = lv[:nf]
                kw["length_scale"] = obj_list(lv)
            kern = it.call(mod.ns[cls], [], kw)
            H = [h for h in r.hyps]
            X = sym_array("x", (NX, nf))
            Y = sym_array("y", (NY, nf))
            tag = "%s[%s]" % (cls, "iso" if iso else "aniso")
            fq = FQ(cls, "_get_k0_dk0_train", "_get_k0_dk0_eval", "get_k0_for_mapping")
            k0t, dk0t = it.call_method(kern, "_get_k0_dk0_train", [X.copy(), Y.copy(), True])
            k0e, dk0e = it.call_method(kern, "_get_k0_dk0_eval", [X.copy(), Y.copy(), True])
            k0n, dn = it.call_method(kern, "_get_k0_dk0_eval", [X.copy(), Y.copy(), False])
            ctx.holds("%s shapes" % tag, k0t.shape == (NX, NY, nf) and dk0t.shape == (NX, NY, nf) and dk0e.shape == (NX, NY, nf) and dn is None, "", fq)
            for i in range(NX):
                for j in range(NY):
                    for f in range(nf):
                        l = lv[f] if not iso else lv[0]
                        fv = set(u.args[0] for u in tm.free_vars(tm.lift(k0t[i, j, f])))
                        foreign = [v for v in fv if v[:2] in ("x_", "y_") and v not in ("x_%d_%d" % (i, f), "y_%d_%d" % (j, f))]
                        ctx.holds("%s k0[%d,%d,%d] reads x[%d,%d], y[%d,%d] only" % (tag, i, j, f, i, f, j, f), not foreign, str(foreign), fq)
                        ctx.equal("%s train/eval factors agree [%d,%d,%d]" % (tag, i, j, f), H, k0t[i, j, f], k0e[i, j, f], fq)
                        ctx.equal("%s eval(no gradient) factor [%d,%d,%d]" % (tag, i, j, f), H, k0n[i, j, f], k0e[i, j, f], fq)
                        ctx.equal("%s train dk0[%d,%d,%d] = l * d k0/d l" % (tag, i, j, f), H, dk0t[i, j, f], l * tm.diff(tm.lift(k0t[i, j, f]), l) if not iso else
                                  l * tm.diff(tm.substitute(tm.lift(k0t[i, j, f]), {}), l), fq)
                        ctx.equal("%s eval dk0[%d,%d,%d] = d k0/d x" % (tag, i, j, f), H, dk0e[i, j, f], tm.diff(tm.lift(k0e[i, j, f]), X[i, f]), fq)
            ctx.canary("%s canary" % tag, H, dk0e[0, 1, 0], 2 * tm.diff(tm.lift(k0e[0, 1, 0]), X[0, 0]) + 1)
            # symmetry and PSD form of the one-dimensional factor
            k0s, _ = it.call_method(kern, "_get_k0_dk0_eval", [Y.copy(), X.copy(), False])
            for f in range(nf):
                ctx.equal("%s factor symmetric k0(x,y) = k0(y,x) [f=%d]" % (tag, f), H, k0e[0, 1, f], k0s[1, 0, f], fq)
            # mapping factor (1-D arrays, explicit length scale): clause of C11
            for f in (range(nf) if mapping else ()):
                l = lv[f] if not iso else lv[0]
                km = all_paths(it, lambda: it.call_method(kern, "get_k0_for_mapping", [X[:, f].copy(), Y[:, f].copy(), l]))
                ret, exc = returned(km)
                ctx.holds("%s get_k0_for_mapping returns [f=%d]" % (tag, f), len(ret) == 1, "%s" % [exc_name(p) for p in exc], fq)
                if len(ret) == 1:
                    kmv = ret[0][0]
                    for i in range(NX):
                        for j in range(NY):
                            ctx.equal("%s mapping factor = kernel factor [%d,%d,f=%d]" % (tag, i, j, f), H, kmv[i, j], k0e[i, j, f], fq, replay=replay_k0map(cls))
    return run


def replay_k0map(cls):
    def replay(wit):
        import ciderpress.models.kernels as K
        rng = np.random.RandomState(3)
        kw = {"order": 2, "length_scale": np.array([0.7, 1.9]), "scale": [1.0, 1.0, 1.0]}
        if cls in ("DiffAddLLRBF", "DiffAddRQ"):
            kw["alpha"] = 1.7
        kern = getattr(K, cls)(**kw)
        X, Y = rng.rand(3, 2), rng.rand(4, 2)
        k0 = kern._get_k0_dk0_eval(X, Y, False)[0]
        bad = []
        for f in range(2):
            km = kern.get_k0_for_mapping(X[:, f], Y[:, f], kw["length_scale"][f])
            if np.max(np.abs(km - k0[:, :, f])) > 1e-12:
                bad.append({"feature": f, "max_abs_diff": float(np.max(np.abs(km - k0[:, :, f])))})
        return {"reproduced": bool(bad), "class": cls, "mismatches": bad}
    return replay


def unit_additive(order, iso):
    """DiffAdditiveMixin.__call__ / k_and_deriv with an abstract per-dimension factor: k0[i,j,f], dk0[i,j,f] fresh symbols."""
    def run(ctx):
        it = ctx.interp
        mod = setup_interp(it)
        ctx.assume(SK_ASSUMPTION)
        nf = max(3, order)
        X = sym_array("x", (NX, nf))
        Y = sym_array("y", (NY, nf))
        k0 = sym_array("k0", (NX, NY, nf))
        dk0 = sym_array("dk0", (NX, NY, nf))
        k0x = sym_array("k0", (NX, NX, nf))
        sv = [tm.var("s%d" % i) for i in range(order + 1)]
        fq = FQ("DiffAdditiveMixin", "__call__", "k_and_deriv", "get_zero_derivs")
        for fixed in ((), ("length_scale",), ("scale",), ("length_scale", "scale")):
            kc = ClassV("_AbstractAdditive", [mod.ns["DiffAdditiveMixin"], it.load_module("sklearn.gaussian_process.kernels").ns["Kernel"]], mod)
            o = Obj(kc)
            l = tm.var("l") if iso else obj_list([tm.var("l%d" % f) for f in range(nf)])
            kw = {"order": order, "length_scale": l, "scale": list(sv)}
            for hp in fixed:
                kw[hp + "_bounds"] = "fixed"
            init, _ = mod.ns["DiffAdditiveMixin"].lookup("__init__")
            it.call_function(init, [o], kw)
            o.fields["_get_k0_dk0_train"] = Builtin("abs.k0train", lambda Xa, Ya, eg: (k0x.copy(), dk0[:, :NX].copy() if eg else None) if Ya.shape[0] == NX and Ya is Xa else (k0.copy(), dk0.copy() if eg else None))
            o.fields["_get_k0_dk0_eval"] = Builtin("abs.k0eval", lambda Xa, Ya, eg: (k0.copy(), dk0.copy() if eg else None))
            tag = "additive[o%d,%s,fixed=%s]" % (order, "iso" if iso else "aniso", ",".join(fixed))
            E = lambda i, j, arr: tm.mk_add(*[sv[n] * esym([arr[i, j, f] for f in range(nf)], n) for n in range(order + 1)])
            if not fixed:
                K = it.call(o, [X.copy(), Y.copy()], {})
                k, dk = it.call_method(o, "k_and_deriv", [X.copy(), Y.copy()])
                kk, en = it.call(o, [X.copy(), Y.copy()], {"get_sub_kernels": True})
                ctx.holds("%s len(en) = order+1" % tag, len(en) == order + 1, "", fq)
                for i in range(NX):
                    for j in range(NY):
                        ctx.equal("%s value[%d,%d] = sum_n s_n e_n(k0)" % (tag, i, j), [], K[i, j], E(i, j, k0), fq)
                        ctx.equal("%s k_and_deriv value[%d,%d]" % (tag, i, j), [], k[i, j], E(i, j, k0), fq)
                        for n in range(1, order + 1):
                            ctx.equal("%s sub-kernel e_%d[%d,%d]" % (tag, n, i, j), [], en[n][i, j], esym([k0[i, j, f] for f in range(nf)], n), fq)
                        for f in range(nf):
                            ctx.equal("%s chain rule dk[%d,%d,%d] = dK/dk0_f * dk0_f" % (tag, i, j, f), [], dk[i, j, f], tm.diff(E(i, j, k0), k0[i, j, f]) * dk0[i, j, f], fq)
                ctx.canary("%s canary" % tag, [], dk[0, 1, 0], 2 * tm.diff(E(0, 1, k0), k0[0, 1, 0]) * dk0[0, 1, 0] + 1)
            Kg, G = it.call(o, [X.copy()], {"eval_gradient": True})
            want = []
            if "length_scale" not in fixed:
                if iso:
                    want.append(lambda i, j: tm.mk_add(*[tm.diff(E(i, j, k0x), k0x[i, j, f]) * dk0[i, j, f] for f in range(nf)]))
                else:
                    for f in range(nf):
                        want.append(lambda i, j, f=f: tm.diff(E(i, j, k0x), k0x[i, j, f]) * dk0[i, j, f])
            if "scale" not in fixed:
                for n in range(order + 1):
                    want.append(lambda i, j, n=n: sv[n] * esym([k0x[i, j, f] for f in range(nf)], n))
            ctx.holds("%s gradient column count = %d" % (tag, len(want)), G.shape == (NX, NX, len(want)), str(G.shape), fq)
            if G.shape == (NX, NX, len(want)):
                for i in range(NX):
                    for j in range(NX):
                        ctx.equal("%s gradient-call value[%d,%d]" % (tag, i, j), [], Kg[i, j], E(i, j, k0x), fq)
                        for p, w in enumerate(want):
                            ctx.equal("%s G[%d,%d,%d]" % (tag, i, j, p), [], G[i, j, p], w(i, j), fq)
                if want:
                    ctx.canary("%s G canary" % tag, [], G[0, 1, 0], 2 * want[0](0, 1) + 1)
    return run


# ------------------------------------------------------------------ subset / spin-symmetric mixins
SUBSET = {"SubsetRBF": "DiffRBF", "SubsetARBF": "DiffARBF", "SubsetAddLLRBF": "DiffAddLLRBF", "SubsetAddRQ": "DiffAddRQ", "SubsetPoly": "DiffPolyKernel"}
SPINSYM = {"SpinSymRBF": "DiffRBF", "SpinSymARBF": "DiffARBF", "SpinSymPoly": "DiffPolyKernel"}


def base_recipe(base, nsel):
    for r in leaf_recipes():
        if r.cls == base and r.nfeat == nsel and (r.order in (None, 2)) and ("aniso" in r.name or base == "DiffPolyKernel"):
            if base == "DiffPolyKernel" and "o2/fact/aniso" not in r.name:
                continue
            return r
    raise KeyError(base)


def unit_subset(sub, base):
    def run(ctx):
        it = ctx.interp
        mod = setup_interp(it)
        ctx.assume(SK_ASSUMPTION)
        nfull = 5
        X = sym_array("x", (NX, nfull))
        Y = sym_array("y", (NY, nfull))
        fq = FQ("_SubsetMixin", "__call__", "k_and_deriv", "diag", "__init__")
        for label, idx, sel in (("list", [4, 1, 2], [4, 1, 2]), ("slice", slice(1, 4, None), [1, 2, 3]), ("slice-open", slice(2, None, None), [2, 3, 4]), ("slice-step", slice(0, 5, 2), [0, 2, 4])):
          try:
            r = base_recipe(base, 3)
            args, kw = r.build()
            bk = it.call(mod.ns[base], list(args), dict(kw))
            sk = it.call(mod.ns[sub], [idx] + list(args), dict(kw))
            Xs, Ys = X[:, sel], Y[:, sel]
            H = list(r.hyps)
            kb = it.call(bk, [Xs.copy(), Ys.copy()], {})
            ks = it.call(sk, [X.copy(), Y.copy()], {})
            ks1 = it.call(sk, [X.copy()], {})
            kb1 = it.call(bk, [Xs.copy()], {})
            ds = it.call_method(sk, "diag", [X.copy()])
            k2, dk2 = it.call_method(sk, "k_and_deriv", [X.copy(), Y.copy()])
            kbd, dkb = it.call_method(bk, "k_and_deriv", [Xs.copy(), Ys.copy()])
            ctx.holds("%s[%s] lock released after __call__/diag/k_and_deriv" % (sub, label), sk.fields.get("_locked") is False, "_locked=%r" % sk.fields.get("_locked"), fq)
            ctx.holds("%s[%s] shapes" % (sub, label), ks.shape == (NX, NY) and dk2.shape == (NX, NY, nfull), "", fq)
            for i in range(NX):
                ctx.equal("%s[%s] diag[%d] = k(X,X)[%d,%d]" % (sub, label, i, i, i), H, ds[i], ks1[i, i], fq, replay=replay_subset(sub, idx))
                for j in range(NY):
                    ctx.equal("%s[%s] k[%d,%d] = base(X[:,idx],Y[:,idx])" % (sub, label, i, j), H, ks[i, j], kb[i, j], fq)
                    ctx.equal("%s[%s] k(X)[%d,%d] = base(X[:,idx])" % (sub, label, i, j), H, ks1[i, j], kb1[i, j], fq)
                    ctx.equal("%s[%s] k_and_deriv value[%d,%d]" % (sub, label, i, j), H, k2[i, j], kb[i, j], fq)
                    for f in range(nfull):
                        ctx.equal("%s[%s] dspec dk[%d,%d,%d] = d k/dX[%d,%d] (0 for unselected features)" % (sub, label, i, j, f, i, f), H, dk2[i, j, f],
                                  tm.diff(tm.lift(ks[i, j]), X[i, f]), fq)
            ctx.canary("%s[%s] canary" % (sub, label), H, dk2[0, 0, sel[0]], 2 * tm.diff(tm.lift(ks[0, 0]), X[0, sel[0]]) + 1)
            # theta gradient passes through unchanged
            kg, G = it.call(sk, [X.copy()], {"eval_gradient": True})
            kgb, Gb = it.call(bk, [Xs.copy()], {"eval_gradient": True})
            ctx.holds("%s[%s] theta-gradient shape" % (sub, label), G.shape == Gb.shape, "%s vs %s" % (G.shape, Gb.shape), fq)
            if G.shape == Gb.shape:
                for idx3 in itertools.product(*[range(n) for n in G.shape]):
                    ctx.equal("%s[%s] theta-gradient%s = base" % (sub, label, list(idx3)), H, G[idx3], Gb[idx3], fq)
          except PyRaise as e:
            ctx.holds("%s[%s] __call__/diag/k_and_deriv return (no exception for a valid index set)" % (sub, label), False, "raised %s" % (e,), fq, replay=replay_subset(sub, idx))
    return run


def replay_subset(sub, idx):
    def replay(wit):
        import ciderpress.models.kernels as K
        rng = np.random.RandomState(2)
        X = rng.rand(3, 5)
        kw = {"length_scale": np.array([0.8, 1.1, 1.7])}
        if "RBF" != sub[6:] and sub != "SubsetPoly":
            kw.update(order=2, scale=[1.0, 0.7, 0.4])
        if sub in ("SubsetAddLLRBF", "SubsetAddRQ"):
            kw["alpha"] = 1.3
        if sub == "SubsetPoly":
            kw = {"gamma": np.array([0.8, 1.1, 1.7]), "order": 2}
        try:
            k = getattr(K, sub)(idx, **kw)
            d = k.diag(X)
            full = np.diag(k(X))
            kk, dk = k.k_and_deriv(X)
        except Exception as e:
            return {"reproduced": True, "raised": "%s: %s" % (type(e).__name__, e)}
        return {"reproduced": bool(np.max(np.abs(d - full)) > 1e-10), "diag": d.tolist(), "diag_of_k": full.tolist()}
    return replay


def unit_spinsym(sub, base):
    def run(ctx):
        it = ctx.interp
        mod = setup_interp(it)
        ctx.assume(SK_ASSUMPTION)
        nfull = 7
        X = sym_array("x", (NX, nfull))
        Y = sym_array("y", (NY, nfull))
        fq = FQ("_SpinSymMixin", "__call__", "k_and_deriv", "diag", "__init__")
        for label, ai, bi, asel, bsel in (("list", [0, 1, 2], [0, 3, 4], [0, 1, 2], [0, 3, 4]), ("slice", slice(1, 4), slice(4, 7), [1, 2, 3], [4, 5, 6])):
            r = base_recipe(base, 3)
            args, kw = r.build()
            bk = it.call(mod.ns[base], list(args), dict(kw))
            sk = it.call(mod.ns[sub], [ai, bi] + list(args), dict(kw))
            H = list(r.hyps)
            Xa, Xb, Ya, Yb = X[:, asel], X[:, bsel], Y[:, asel], Y[:, bsel]
            kk = lambda P, R: it.call(bk, [P.copy(), R.copy()], {})
            want = kk(Xa, Ya) + kk(Xa, Yb) + kk(Xb, Ya) + kk(Xb, Yb)
            ks = it.call(sk, [X.copy(), Y.copy()], {})
            ks1 = it.call(sk, [X.copy()], {})
            ds = it.call_method(sk, "diag", [X.copy()])
            k2, dk2 = it.call_method(sk, "k_and_deriv", [X.copy(), Y.copy()])
            ctx.holds("%s[%s] lock released" % (sub, label), sk.fields.get("_locked") is False, "", fq)
            ctx.holds("%s[%s] shapes" % (sub, label), ks.shape == (NX, NY) and dk2.shape == (NX, NY, nfull), "%s %s" % (ks.shape, dk2.shape), fq)
            # exchange of the spin blocks of X (for disjoint blocks): swap columns asel <-> bsel
            disjoint = not set(asel) & set(bsel)
            if disjoint:
                Xsw = X.copy()
                Xsw[:, asel], Xsw[:, bsel] = X[:, bsel], X[:, asel]
                ksw = it.call(sk, [Xsw.copy(), Y.copy()], {})
                k3, dk3 = it.call_method(sk, "k_and_deriv", [Xsw.copy(), Y.copy()])
            for i in range(NX):
                ctx.equal("%s[%s] diag[%d] = k(X,X)[%d,%d]" % (sub, label, i, i, i), H, ds[i], ks1[i, i], fq)
                for j in range(NY):
                    ctx.equal("%s[%s] k[%d,%d] = sum of the four spin blocks" % (sub, label, i, j), H, ks[i, j], want[i, j], fq)
                    ctx.equal("%s[%s] k_and_deriv value[%d,%d]" % (sub, label, i, j), H, k2[i, j], want[i, j], fq)
                    if disjoint:
                        ctx.equal("%s[%s] spin exchange of X leaves k[%d,%d] unchanged" % (sub, label, i, j), H, ksw[i, j], ks[i, j], fq)
                        for t in range(len(asel)):
                            # k(X') = k(X) with X' the block-swapped X, hence d k/d alpha_t at X' equals d k/d beta_t at X (and vice versa)
                            ctx.equal("%s[%s] spin exchange swaps derivative blocks [%d,%d,%d]" % (sub, label, i, j, t), H, dk3[i, j, asel[t]], dk2[i, j, bsel[t]], fq)
                            ctx.equal("%s[%s] spin exchange swaps derivative blocks (beta) [%d,%d,%d]" % (sub, label, i, j, t), H, dk3[i, j, bsel[t]], dk2[i, j, asel[t]], fq)
                    if disjoint:
                        for f in range(nfull):
                            ctx.equal("%s[%s] dspec dk[%d,%d,%d] = d k/dX[%d,%d]" % (sub, label, i, j, f, i, f), H, dk2[i, j, f], tm.diff(tm.lift(ks[i, j]), X[i, f]), fq)
            ctx.canary("%s[%s] canary" % (sub, label), H, ks[0, 0], want[0, 0] + kk(Xa, Ya)[0, 0])
            if not disjoint:
                ctx.assume("_SpinSymMixin with overlapping alpha/beta index lists: the derivative of the shared column is overwritten by the beta block "
                           "(dkfull[..., beta_ind] assigned after alpha_ind); D-spec is claimed for disjoint blocks only, as the class docstring describes")
    return run


# ------------------------------------------------------------------ DFTKernel
DMOD = "ciderpress.models.dft_kernel"


def unit_dftkernel(mode):
    def run(ctx):
        it = ctx.interp
        mod = setup_interp(it)
        ctx.assume(SK_ASSUMPTION)
        dm = it.load_module(DMOD)
        nf, nctrl, ns = 2, 3, NS
        A, kA, dA = abstract_kernel(mod, "K", nf, it)
        fq = ["%s:DFTKernel.%s" % (DMOD, m) for m in ("get_k", "get_kctrl", "get_k_and_deriv")]
        for nspin in (1, 2):
            dk_obj = Obj(dm.ns["DFTKernel"])
            dk_obj.fields.update({"kernel": A, "mode": mode, "alpha": None})
            pol = mode == "POL"
            Xc = sym_array("c", (2, nctrl, nf)) if pol else sym_array("c", (nctrl, nf))
            dk_obj.fields["X1ctrl"] = Xc
            X0T = sym_array("x", (nspin, nf, ns))
            # descriptors: identity feature list (X1[s*ns+g, f] = X0T[s, f, g]); the feature-list contract itself is C12/C04
            def get_descriptors(X0T_, force_polarize=False):
                return np.array([[X0T_[s, f, g] for f in range(nf)] for s in range(X0T_.shape[0]) for g in range(ns)], dtype=object)

            def apply_descriptor_grad(X0T_, dfdX1):
                out = np.empty((X0T_.shape[0], nf, ns), dtype=object)
                for s in range(X0T_.shape[0]):
                    for f in range(nf):
                        for g in range(ns):
                            out[s, f, g] = dfdX1[s * ns + g, f]
                return out
            dk_obj.fields["get_descriptors"] = Builtin("abs.get_descriptors", get_descriptors)
            dk_obj.fields["apply_descriptor_grad"] = Builtin("abs.apply_descriptor_grad", apply_descriptor_grad)
            dk_obj.fields["feature_list"] = Obj(ClassV("_FL", [], dm))
            dk_obj.fields["feature_list"].fields["nfeat"] = nf
            tag = "DFTKernel/%s/nspin%d" % (mode, nspin)
            kp = all_paths(it, lambda: it.call_method(dk_obj, "get_k", [X0T.copy()]))
            ret, exc = returned(kp)
            ctx.holds("%s get_k returns" % tag, len(ret) == 1, "%s" % [exc_name(p) for p in exc], fq)
            if len(ret) != 1:
                continue
            k = ret[0][0]
            row = lambda s, g: [X0T[s, f, g] for f in range(nf)]
            K = lambda x, c: tm.mk_fn("K", *([tm.lift(v) for v in x] + [tm.lift(v) for v in c]))
            def want(c, s, g):
                if pol:
                    xa, xb = row(0, g), row(1 if nspin == 2 else 0, g)
                    ca, cb = list(Xc[0, c]), list(Xc[1, c])
                    return K(xa, ca) * K(xb, cb) + K(xa, cb) * K(xb, ca)
                return K(row(s, g), list(Xc[c]))
            for c in range(nctrl):
                for g in range(ns):
                    if mode == "SEP":
                        for s in range(nspin):
                            ctx.equal("%s get_k[%d,%d,%d]" % (tag, c, s, g), [], k[c, s, g], want(c, s, g), fq)
                    elif pol:
                        ctx.equal("%s get_k[%d,%d] = k_aa k_bb + k_ab k_ba" % (tag, c, g), [], k[c, g], want(c, 0, g), fq)
                    else:
                        for s in range(nspin):
                            ctx.equal("%s get_k[%d,%d]" % (tag, c, s * ns + g), [], k[c, s * ns + g], want(c, s, g), fq)
            kdp = all_paths(it, lambda: it.call_method(dk_obj, "get_k_and_deriv", [X0T.copy()]))
            ret, exc = returned(kdp)
            ctx.holds("%s get_k_and_deriv returns (input gradients are produced)" % tag, len(ret) == 1, "raises %s" % [str(p[1])[:200] for p in exc][:2], fq, replay=replay_dftkernel(mode, nspin))
            if len(ret) != 1:
                continue
            k2, dkd = ret[0][0]
            ctx.holds("%s derivative shape (Nctrl, nspin, N0, Nsamp)" % tag, dkd.shape == (nctrl, nspin, nf, ns), str(dkd.shape), fq)
            # derivative of the abstract K: D_f K w.r.t. its first argument block
            def dwant(c, s, f, g):
                if pol and nspin == 1:
                    # unpolarised input in POL mode: both spin slots hold X0T[0]; the returned array is the derivative with respect to
                    # ONE spin channel's descriptors (the convention the orbital-derivative covariances of train.py consume: an
                    # occupation change of one spin-orbital moves one channel), i.e. the partial derivative w.r.t. the alpha slot
                    xb = [tm.var("xb_%d" % q) for q in range(nf)]
                    xa, ca, cb = row(0, g), list(Xc[0, c]), list(Xc[1, c])
                    w = K(xa, ca) * K(xb, cb) + K(xa, cb) * K(xb, ca)
                    d = diff_abstract(w, X0T[0, f, g], nf)
                    return tm.substitute(d, {xb[q]: tm.lift(xa[q]) for q in range(nf)})
                w = want(c, s, g)
                # differentiate w.r.t. X0T[s, f, g] with d K(x, c)/d x_f = D_f K(x, c)
                return diff_abstract(w, X0T[s, f, g], nf)
            for c in range(nctrl):
                for s in range(nspin):
                    for f in range(nf):
                        for g in range(ns):
                            ctx.equal("%s dspec dkdX0T[%d,%d,%d,%d] = d k/d X0T[%d,%d,%d]" % (tag, c, s, f, g, s, f, g), [], dkd[c, s, f, g], dwant(c, s, f, g), fq,
                                      replay=replay_dftkernel(mode, nspin))
            ctx.canary("%s canary" % tag, [], dkd[0, 0, 0, 0], 2 * dwant(0, 0, 0, 0) + 1)
            if nspin == 2:
                # control-point covariance with a *symmetric* abstract kernel KS(x, y) = KS(y, x) (symmetry of every kernel class is proved in the leaf units)
                def ksym(Xa, Ya=None, eval_gradient=False):
                    Yv = Xa if Ya is None else Ya
                    out = np.empty((Xa.shape[0], Yv.shape[0]), dtype=object)
                    for i in range(Xa.shape[0]):
                        for j in range(Yv.shape[0]):
                            a_, b_ = [tm.lift(v) for v in Xa[i]], [tm.lift(v) for v in Yv[j]]
                            if [u.id for u in a_] > [u.id for u in b_]:
                                a_, b_ = b_, a_
                            out[i, j] = tm.mk_fn("KS", *(a_ + b_))
                            # scikit-learn's one-argument form is NOT k(X, X) for every kernel: a noise term (WhiteKernel) is added on the diagonal only there
                            if Ya is None and i == j:
                                out[i, j] = out[i, j] + tm.var("noise_level_of_one_argument_form")
                    return out
                S = Obj(ClassV("_AbstractSymKernel", [], mod))
                S.fields["__call__"] = Builtin("abs.ksym", ksym)
                dk_obj.fields["kernel"] = S
                Kmm = it.call_method(dk_obj, "get_kctrl", [])
                fqc = ["%s:DFTKernel.get_kctrl" % DMOD]
                KS = lambda x, y: ksym(np.array([x], dtype=object), np.array([y], dtype=object))[0, 0]
                ctx.holds("%s get_kctrl shape" % tag, Kmm.shape == (nctrl, nctrl), str(Kmm.shape), fqc)
                for c in range(nctrl):
                    for d in range(nctrl):
                        if pol:
                            ca, cb, da_, db_ = Xc[0, c], Xc[1, c], Xc[0, d], Xc[1, d]
                            w = KS(ca, da_) * KS(cb, db_) + KS(ca, db_) * KS(cb, da_)
                        else:
                            w = KS(Xc[c], Xc[d])
                        ctx.equal("%s get_kctrl[%d,%d] = k_aa k_bb + k_ab k_ba over control points" % (tag, c, d), [], Kmm[c, d], w, fqc, replay=replay_kctrl(mode))
                        ctx.equal("%s get_kctrl symmetric [%d,%d]" % (tag, c, d), [], Kmm[c, d], Kmm[d, c], fqc, replay=replay_kctrl(mode))
                # consistency with get_k: the row of get_k at a sample placed on control point d is column d of Kmm
                Xs = np.empty((nspin, nf, ns), dtype=object)
                for s_ in range(nspin):
                    for f in range(nf):
                        for g in range(ns):
                            Xs[s_, f, g] = (Xc[s_, g, f] if pol else Xc[g, f])
                kk = it.call_method(dk_obj, "get_k", [Xs])
                for c in range(nctrl):
                    for g in range(ns):
                        if pol:
                            ctx.equal("%s get_k at control point %d, row %d = Kmm[%d,%d]" % (tag, g, c, c, g), [], kk[c, g], Kmm[c, g], fqc, replay=replay_kctrl(mode))
                        elif mode == "NPOL":
                            ctx.equal("%s get_k at control point %d, row %d = Kmm[%d,%d]" % (tag, g, c, c, g), [], kk[c, g], Kmm[c, g], fqc)
                dk_obj.fields["kernel"] = A
            if pol and nspin == 2:
                Xsw = X0T[::-1].copy()
                ksw = it.call_method(dk_obj, "get_k", [Xsw])
                Csw = Xc[::-1].copy()
                for c in range(nctrl):
                    for g in range(ns):
                        # exchanging the spin channels of the sample and of the control points leaves k unchanged
                        wsw = tm.substitute(tm.lift(ksw[c, g]), {Xc[a, c, f]: Csw[a, c, f] for a in range(2) for f in range(nf)})
                        ctx.equal("%s spin exchange (sample and control points) leaves k[%d,%d] unchanged" % (tag, c, g), [], wsw, k[c, g], fq)
    return run


def diff_abstract(t, x, nf):
    """d t / d x where t contains K(x_0..x_{nf-1}, c...) with D_f K as the derivative w.r.t. the f-th argument."""
    t = tm.lift(t)
    cache = {}

    def d(u):
        if u.id in cache:
            return cache[u.id]
        if u is x:
            r = tm.ONE
        elif u.op in ("c", "v"):
            r = tm.ZERO
        elif u.op == "+":
            r = tm.mk_add(*[d(a) for a in u.args])
        elif u.op == "*":
            parts = []
            for i, a in enumerate(u.args):
                da = d(a)
                if da is not tm.ZERO:
                    parts.append(tm.mk_mul(*(u.args[:i] + (da,) + u.args[i + 1:])))
            r = tm.mk_add(*parts) if parts else tm.ZERO
        elif u.op == "^":
            b, e = u.args
            r = tm.mk_mul(e, tm.mk_pow(b, tm.mk_add(e, tm.MONE)), d(b))
        elif u.op == "f" and u.args[0] == "K":
            r = tm.mk_add(*[tm.mk_mul(tm.mk_fn("D%d_K" % f, *u.args[1:]), d(u.args[1 + f])) for f in range(nf)])
        else:
            raise Unsupported("diff_abstract through %s" % u.op)
        cache[u.id] = r
        return r
    return d(t)


def replay_dftkernel(mode, nspin):
    def replay(wit):
        from pyvc import native
        native.install_shim()
        import ciderpress.models.kernels as K
        from ciderpress.models.dft_kernel import DFTKernel
        from ciderpress.dft.transform_data import FeatureList, UMap
        rng = np.random.RandomState(5)
        nf, nctrl, ns = 2, 3, 4
        fl = FeatureList([UMap(i, 0.7 + 0.1 * i) for i in range(nf)])
        kern = K.DiffRBF(length_scale=np.array([0.9, 1.3]))
        dk = DFTKernel(kern, fl, mode, lambda X0T: np.ones(X0T.shape[::2]))
        dk.X1ctrl = rng.rand(2, nctrl, nf) if mode == "POL" else rng.rand(nctrl, nf)
        X0T = rng.rand(nspin, nf, ns) + 0.2
        try:
            k, dkd = dk.get_k_and_deriv(X0T)
        except Exception as e:
            return {"reproduced": True, "error": "%s: %s" % (type(e).__name__, e), "mode": mode, "nspin": nspin}
        bad = []
        for s in range(nspin):
            for f in range(nf):
                for g in range(ns):
                    def val(t):
                        Xp = X0T.copy()
                        Xp[s, f, g] = t
                        return dk.get_k(Xp)
                    h = 1e-4
                    fd = (val(X0T[s, f, g] + h) - val(X0T[s, f, g] - h)) / (2 * h)
                    fdv = fd[:, s, g] if mode == "SEP" else (fd[:, g] if mode == "POL" else fd[:, s * ns + g])
                    if mode == "POL" and nspin == 1:
                        fdv = fdv / 2   # per-channel convention, see the contract
                    if np.max(np.abs(fdv - dkd[:, s, f, g])) > 1e-6:
                        bad.append({"s": s, "f": f, "g": g, "max_abs_diff": float(np.max(np.abs(fdv - dkd[:, s, f, g])))})
        return {"reproduced": bool(bad), "mode": mode, "nspin": nspin, "mismatches": bad[:5]}
    return replay


def replay_kctrl(mode):
    def replay(wit):
        from pyvc import native
        native.install_shim()
        import ciderpress.models.kernels as K
        from ciderpress.models.dft_kernel import DFTKernel
        from ciderpress.dft.transform_data import FeatureList, UMap
        rng = np.random.RandomState(5)
        nf, nctrl = 2, 4
        fl = FeatureList([UMap(i, 0.7 + 0.1 * i) for i in range(nf)])
        kern = K.DiffRBF(length_scale=np.array([0.9, 1.3])) + K.DiffWhiteKernel(noise_level=0.3)
        dk = DFTKernel(kern, fl, mode, lambda X0T: np.ones(X0T.shape[::2]))
        dk.X1ctrl = rng.rand(2, nctrl, nf) if mode == "POL" else rng.rand(nctrl, nf)
        Kmm = dk.get_kctrl()
        asym = float(np.max(np.abs(Kmm - Kmm.T)))
        ev = float(np.min(np.linalg.eigvalsh(0.5 * (Kmm + Kmm.T))))
        # the covariance between control points by the two-argument form of the kernel (what get_k evaluates against the same control points)
        if mode == "POL":
            a, b = dk.X1ctrl
            ref = kern(a, a) * kern(b, b) + kern(a, b) * kern(b, a)
        else:
            ref = kern(dk.X1ctrl, dk.X1ctrl)
        dev = float(np.max(np.abs(Kmm - ref)))
        return {"reproduced": bool(asym > 1e-12 or ev < -1e-10 or dev > 1e-12), "max_asymmetry": asym, "min_eigenvalue": ev, "max |Kmm - two-argument kernel formula|": dev, "mode": mode}
    return replay


def unit_registry(ctx):
    """Every class of the module that defines __call__ or k_and_deriv is under contract or listed with a reason."""
    it = ctx.interp
    mod = setup_interp(it)
    covered = set(r.cls for r in leaf_recipes()) | set(SUBSET) | set(SPINSYM) | {"DiffSum", "DiffProduct", "DiffExponentiation", "DiffTransform",
                                                                                 "DiffKernelMixin", "_IndexMixin", "_SubsetMixin", "_SpinSymMixin", "DiffAdditiveMixin"}
    legacy = {"PartialRBF": "legacy (not constructed anywhere in the package)", "PartialARBF": "legacy", "QARBF": "legacy; order-2 special case", "SingleRBF": "legacy",
              "SingleDot": "legacy", "DensityNoise": "noise model, no gradient", "ExponentialDensityNoise": "noise model", "FittedDensityNoise": "noise model",
              "ADKernel": "legacy wrapper", "SpinSymKernel": "legacy wrapper"}
    for name, v in sorted(mod.ns.items()):
        if isinstance(v, ClassV) and v.module is mod:
            ctx.holds("class %s is under contract or listed as not covered" % name, name in covered or name in legacy, "new kernel class without a contract", ["%s:%s" % (KMOD, name)])
    for k, why in sorted(legacy.items()):
        ctx.assume("kernels.%s not under contract: %s" % (k, why))


INT_COMPOSITES = ["2 * rbf", "rbf * 2", "const(3) * rbf", "const(3) * rbf + rbf", "(2 * rbf) * rq", "(2 * rbf) ** 2", "2 * (rbf + rq)", "const(1) * (const(2) * rbf)"]


def _native_int_composite(expr):
    import ciderpress.models.kernels as K
    env = {"rbf": K.DiffRBF(length_scale=np.array([0.9, 1.3])), "rq": K.DiffRQ(alpha=1.5, length_scale=1.1) if hasattr(K, "DiffRQ") else K.DiffRBF(length_scale=np.array([0.7, 1.9])),
           "const": lambda c: K.DiffConstantKernel(c)}
    return eval(expr, {"__builtins__": {}}, env)


def replay_int_composite(expr):
    def replay(wit):
        from pyvc import native
        native.install_shim()
        kern = _native_int_composite(expr)
        rng = np.random.RandomState(8)
        X, Y = rng.rand(4, 2) + 0.2, rng.rand(3, 2) + 0.2
        k, dk = kern.k_and_deriv(X, Y)
        ref = kern(X, Y)
        h = 1e-6
        fd = np.zeros(k.shape + (X.shape[1],))
        for f in range(X.shape[1]):
            Xp, Xm = X.copy(), X.copy()
            Xp[:, f] += h
            Xm[:, f] -= h
            fd[:, :, f] = (kern(Xp, Y) - kern(Xm, Y)) / (2 * h)
        ev, ed = float(np.max(np.abs(k - ref))), float(np.max(np.abs(np.asarray(dk, dtype=float) - fd)))
        return {"reproduced": bool(ev > 1e-10 or ed > 1e-5), "composite": expr, "max |k - kernel(X, Y)|": ev, "max |input gradient - central difference|": ed, "gradient dtype": str(np.asarray(dk).dtype)}
    return replay


def unit_integer_constants(ctx):
    """Machine types are outside assumption A1 (doubles as reals): a constant factor written as a Python int makes scikit-learn's constant kernel return an INTEGER array,
    and a composite that builds its gradient in a buffer of that type truncates it silently.  Bounded stand-in, evaluated natively: for the composites of INT_COMPOSITES
    (integer constants as left / right factors, nested, in sums, products and powers) the values equal kernel(X, Y) and the input gradients equal central differences."""
    from pyvc import native
    native.install_shim()
    fq = [KMOD + ":DiffProduct.k_and_deriv", KMOD + ":DiffSum.k_and_deriv", KMOD + ":DiffExponentiation.k_and_deriv", KMOD + ":DiffConstantKernel.k_and_deriv"]
    for expr in INT_COMPOSITES:
        try:
            r = replay_int_composite(expr)({})
        except Exception as e:
            ctx.undecided("integer constants[%s] evaluates" % expr, "%s: %s" % (type(e).__name__, str(e)[:150]), fq)
            continue
        ctx.bounded("integer constants[%s]: values = kernel(X, Y) and input gradients = central differences (native, float64)" % expr, not r["reproduced"],
                    "the composites of INT_COMPOSITES at one random sample", "%s" % {k: v for k, v in r.items() if k != "reproduced"}, witness={"composite": expr}, replay=replay_int_composite(expr))


def units():
    u = [("registry", unit_registry), ("composites", unit_composites), ("integer-constants", unit_integer_constants)]
    for r in leaf_recipes():
        if r.cls in ADDITIVE and (r.order > 2 or (r.cls == "DiffAddRQ" and "iso" in r.name.split("/"))):
            continue    # covered modularly (k0 contract + abstract additive machinery); end-to-end only at low order
        u.append(("leaf/" + r.name, unit_leaf(r)))
    for c in ADDITIVE:
        u.append(("k0/" + c, unit_k0(c)))
    for order in range(1, 5):
        for iso in (False, True):
            u.append(("additive/o%d/%s" % (order, "iso" if iso else "aniso"), unit_additive(order, iso)))
    for s, b in sorted(SUBSET.items()):
        u.append(("subset/" + s, unit_subset(s, b)))
    for s, b in sorted(SPINSYM.items()):
        u.append(("spinsym/" + s, unit_spinsym(s, b)))
    for mode in ("SEP", "NPOL", "POL"):
        u.append(("dftkernel/" + mode, unit_dftkernel(mode)))
    return u


EXPLANATION = (
    "Every leaf kernel class is executed symbolically (real source, sklearn bases replaced by their documented contract) on symbolic sample matrices "
    "and hyper-parameters; symmetry, diag, the Y=None convention, the input gradient (derivative of the value term itself), the hyper-parameter "
    "gradients in every fixed/free pattern, and a closed PSD-certificate form are proved by exact normal form / z3.  Composites are proved "
    "modularly against abstract operands (so every nesting follows by induction on the nesting depth); subset and spin-symmetric mixins are proved "
    "against their base kernel; DFTKernel's NPOL/SEP/POL assembly against an abstract kernel.  Positive semidefiniteness itself follows from the "
    "certificate by cited closure lemmas (Schur product, sums, non-negative scalings, feature maps, Bochner for the Gaussian, Gamma mixture for RQ) — "
    "the lemmas are mathematics, not checked here.  Bounded in the additive order (<=4; DiffPolyKernel <=6) and in the feature count per recipe.")
TRUSTED = [
    "A1 reals; A3/A4 numpy/Python model",
    "PSD closure lemmas (cited mathematics): Gaussian and rational-quadratic kernels are PSD; sums, products, non-negative scalings, polynomials with "
    "non-negative coefficients, elementary symmetric polynomials, restrictions to feature subsets and pull-backs of PSD kernels are PSD",
    "bounded: additive order <= 4, polynomial order <= 6, feature count fixed per recipe (3..5); rows generic (row independence proved)",
]

if __name__ == "__main__":
    sys.exit(run_property("C15", "other", units(), EXPLANATION, TRUSTED, min_obligations=500))
