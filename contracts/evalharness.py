"""Abstract components used to verify the evaluator wrappers modularly (callee contracts instead of bodies):

  abstract feature list   fill_vals_(tdesc, x):  tdesc[t, g] = F_t(x[:, g])          (contract proved for the real classes in C12)
                          fill_derivs_(dfdx, dfdy, x): dfdx[r, g] += sum_t dfdy[t, g] * D_r F_t(x[:, g])
  abstract evaluator      feval(X1, res, dres): res[g] += E(X1[g, :]);  dres[g, n] += D_n E(X1[g, :])   (contract of FuncEvaluator.__call__)
  abstract baseline       base(X0T) -> (m[g], dm[s, i, g]) with m = M(X0T[:, :, g]) and dm its partials
"""
import numpy as np
from pyvc import terms as tm
from pyvc.interp import ClassV, Obj, Builtin


def ufn(name, args):
    return tm.T("f", (name,) + tuple(tm.lift(a) for a in args))


def abstract_feature_list(it, n0, n1, tag="F"):
    mod = it.load_module("ciderpress.dft.transform_data")
    cls = ClassV("_AbstractFeatureList", [], mod)
    o = Obj(cls)

    def F(t, col):
        return ufn("%s%d" % (tag, t), col)

    def fill_vals_(tdesc, x):
        for t in range(n1):
            for g in range(x.shape[1]):
                tdesc[t, g] = F(t, [x[r, g] for r in range(n0)])

    def fill_derivs_(dfdx, dfdy, x):
        for r in range(n0):
            for g in range(x.shape[1]):
                col = [x[q, g] for q in range(n0)]
                acc = tm.lift(dfdx[r, g])
                for t in range(n1):
                    acc = acc + tm.lift(dfdy[t, g]) * ufn("D%d_%s%d" % (r, tag, t), col)
                dfdx[r, g] = acc
    o.fields["fill_vals_"] = Builtin("abs.fill_vals_", fill_vals_)
    o.fields["fill_derivs_"] = Builtin("abs.fill_derivs_", fill_derivs_)
    o.fields["nfeat"] = n1
    o.F = F
    return o


def abstract_evaluator(it, n1, tag="E"):
    x = it.load_module("ciderpress.dft.xc_evaluator")
    cls = ClassV("_AbstractEvaluator", [x.ns["FuncEvaluator"]], x)
    o = Obj(cls)

    def call(X1, res=None, dres=None):
        X2 = X1.reshape(-1, X1.shape[-1])
        r2 = res.reshape(-1)
        d2 = dres.reshape(-1, X1.shape[-1])
        for g in range(X2.shape[0]):
            row = [X2[g, n] for n in range(n1)]
            r2[g] = tm.lift(r2[g]) + ufn(tag, row)
            for n in range(n1):
                d2[g, n] = tm.lift(d2[g, n]) + ufn("D%d_%s" % (n, tag), row)
        return res, dres
    o.fields["__call__"] = Builtin("abs.feval", call)
    return o


def abstract_baseline(tag, nspin_args=True):
    """base(X0T) -> (m, dm): m[g] = M(X0T[:, :, g]) (all spins and features at g)."""
    def base(interp, X0T):
        ns, n0, ng = X0T.shape
        m = np.empty((ng,), dtype=object)
        dm = np.empty((ns, n0, ng), dtype=object)
        for g in range(ng):
            col = [X0T[s, i, g] for s in range(ns) for i in range(n0)]
            m[g] = ufn("%s_%d" % (tag, ns), col)
            k = 0
            for s in range(ns):
                for i in range(n0):
                    dm[s, i, g] = ufn("D%d_%s_%d" % (k, tag, ns), col)
                    k += 1
        return m, dm
    return base
