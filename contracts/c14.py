"""C14 — saved models and feature lists reload to objects that evaluate identically.

Contracts:
  for every class K registered in transform_data:ALL_CLASSES, symbolic field values, bounds given or defaulted:
     K.as_dict()                     ensures  ALL_CLASS_DICT[result["code"]] is K
     FeatureNormalizer.from_dict(d)  requires d = K(...).as_dict()
                                     ensures  result is an instance of K whose every field equals the original's
                                     (fill_feat_/fill_deriv_ are functions of fields and inputs only — frame proved in C12 —
                                      so evaluation is bit-identical; idempotent under repeated cycles)
     FeatureNormalizer.from_dict(d)  with d["code"] not a registered code  ensures  raises ValueError
  the registration loop              ensures  codes pairwise distinct, none is None
  FeatureList.as_dict/from_dict/dump/load   ensures round trip element-wise (yaml round trip assumed identity)
  SplineSetEvaluator.to_dict/from_dict/dump/load  ensures every field read by __call__ equal (scale list -> array: element-wise)
  model_utils:load_cider_model       ensures every path with an unsupported format, or a loaded object that is neither MappedXC
                                     nor MappedXC2, raises ValueError; supported formats return the loaded MappedXC unchanged
"""
import copy
import os
import sys
import warnings

sys.path.insert(0, os.path.dirname(os.path.dirname(os.path.abspath(__file__))))
warnings.filterwarnings("ignore")

import numpy as np
from fractions import Fraction as Q

from pyvc import terms as tm
from pyvc.framework import run_property
from pyvc.interp import Obj, ExcV, FileV, Opaque, ClassV
from contracts.common import *
from contracts.kernelcommon import returned

TMOD = "ciderpress.dft.transform_data"
XMOD = "ciderpress.dft.xc_evaluator"
MMOD = "ciderpress.dft.model_utils"
INDEX_NAMES = ("i", "j", "k", "l", "i_n", "i_s", "i_alpha")


def class_names():
    it = Interp(os.environ.get("CIDERPRESS_REPO", "/repo"))
    m = it.load_module(TMOD)
    return [c.name for c in m.ns["ALL_CLASSES"]]


def deep_equal(a, b):
    """Structural equality of interpreter values (terms by identity)."""
    if isinstance(a, tm.T) or isinstance(b, tm.T):
        return tm.lift(a) is tm.lift(b) if (tm.lift(a) is not None and tm.lift(b) is not None) else False
    if isinstance(a, (list, tuple)) and isinstance(b, (list, tuple)):
        return type(a) is type(b) and len(a) == len(b) and all(deep_equal(x, y) for x, y in zip(a, b))
    if isinstance(a, dict) and isinstance(b, dict):
        return set(a) == set(b) and all(deep_equal(a[k], b[k]) for k in a)
    if isinstance(a, np.ndarray) and isinstance(b, np.ndarray):
        return a.shape == b.shape and all(deep_equal(x, y) for x, y in zip(a.reshape(-1).tolist(), b.reshape(-1).tolist()))
    if isinstance(a, Obj) and isinstance(b, Obj):
        return a.cls is b.cls and deep_equal(a.fields, b.fields)
    return type(a) is type(b) and a == b


def yaml_copy(v):
    """Assumed contract of yaml.dump + yaml.load (Loader/CLoader): identity on dict/list/tuple/str/int/float/None/ndarray."""
    if isinstance(v, dict):
        return {k: yaml_copy(x) for k, x in v.items()}
    if isinstance(v, list):
        return [yaml_copy(x) for x in v]
    if isinstance(v, tuple):
        return tuple(yaml_copy(x) for x in v)
    if isinstance(v, np.ndarray):
        return v.copy()
    return v


def install_io(it):
    def ydump(interp, d, f=None, **kw):
        if not isinstance(f, FileV) or "w" not in f.mode:
            raise PyRaise(mk_exc_("ValueError", "dump to a file not opened for writing"))
        interp.fs[f.name] = yaml_copy(d)

    def yload(interp, f, Loader=None, **kw):
        if not isinstance(f, FileV) or f.name not in interp.fs:
            raise PyRaise(mk_exc_("FileNotFoundError", "no such file"))
        # PyYAML contract per loader class: only the unrestricted loaders (Loader / UnsafeLoader and their C twins) construct everything yaml.dump emits; the Full loaders
        # refuse python/object/apply nodes (how numpy scalars and arrays are written), the Safe / Base loaders refuse python/tuple as well.  A symbolic parameter stands for
        # ANY float-like value the caller may have passed, a numpy scalar included.
        lname = str(getattr(Loader, "name", Loader)).rsplit(".", 1)[-1]
        if lname not in ("Loader", "UnsafeLoader", "CLoader", "CUnsafeLoader"):
            def restricted(v):
                if isinstance(v, dict):
                    return any(restricted(k) or restricted(x) for k, x in v.items())
                if isinstance(v, (list, tuple)):
                    return (isinstance(v, tuple) and lname not in ("FullLoader", "CFullLoader")) or any(restricted(x) for x in v)
                return isinstance(v, (tm.T, np.ndarray, np.generic))
            if restricted(interp.fs[f.name]):
                raise PyRaise(mk_exc_("Exception", "yaml.constructor.ConstructorError: yaml.%s cannot construct a node yaml.dump wrote (numpy scalar / array / tuple)" % lname))
        return yaml_copy(interp.fs[f.name])
    it.externals["yaml.dump"] = ydump
    it.externals["yaml.load"] = yload
    def jload(interp, name, mmap_mode=None):
        """joblib.load contract: the stored object; with mmap_mode set, its arrays are views of the FILE (a later rewrite of the file changes the loaded object) —
        recorded in interp.joblib_mmap for the ownership obligation of load_cider_model."""
        if ("joblib:" + name) not in interp.fs:
            raise PyRaise(mk_exc_("FileNotFoundError", name))
        if not hasattr(interp, "joblib_mmap"):
            interp.joblib_mmap = []
        interp.joblib_mmap.append(mmap_mode)
        return interp.fs["joblib:" + name]
    it.externals["joblib.load"] = jload


def mk_exc_(name, *a):
    from pyvc.interp import mk_exc
    return mk_exc(name, *a)


def unit_class(clsname):
    def run(ctx):
        it = ctx.interp
        m = it.load_module(TMOD)
        cls = m.ns[clsname]
        table = m.ns["ALL_CLASS_DICT"]
        FN = m.ns["FeatureNormalizer"]
        names, defaults = init_params(cls)
        fq = ["%s:%s.as_dict" % (TMOD, clsname), "%s:%s.from_dict" % (TMOD, clsname), TMOD + ":FeatureNormalizer.from_dict", "%s:%s.__init__" % (TMOD, clsname)]
        variants = [("bounds-default", None)]
        if "bounds" in names:
            variants.append(("bounds-given", (tm.var("blo"), tm.var("bhi"))))
        for vname, bnd in variants:
            args = []
            for k, n in enumerate(names):
                if n == "bounds":
                    continue
                args.append(k + 1 if n in INDEX_NAMES else tm.var("p_" + n))
            kw = {"bounds": bnd} if bnd is not None else {}
            obj = it.call(cls, args, kw)
            paths = all_paths(it, lambda: it.call_method(obj, "as_dict", []))
            ctx.holds("%s/as_dict.single-path" % vname, len(paths) == 1 and paths[0][0] == "return", "as_dict forks or raises: %s" % [(p[0], p[1]) for p in paths], fq[:1])
            d = paths[0][1]
            code = d.get("code") if isinstance(d, dict) else None
            ctx.holds("%s/code-registered-to-this-class" % vname, code in table and table[code] is cls,
                      "as_dict code %r maps to %r in ALL_CLASS_DICT" % (code, table.get(code)), fq[:1],
                      witness={"class": clsname, "code": str(code)}, replay=replay_roundtrip(clsname))
            # round trip through the generic entry point, after a (modelled) yaml cycle
            for cyc in (1, 2):
                dd = yaml_copy(d)
                rp = all_paths(it, lambda: it.call(it.getattr(FN, "from_dict"), [dd], {}))
                ok = len(rp) == 1 and rp[0][0] == "return"
                ctx.holds("%s/from_dict.returns#cycle%d" % (vname, cyc), ok, "from_dict outcome: %s" % [(p[0], str(p[1])) for p in rp], fq[1:3],
                          witness={"class": clsname}, replay=replay_roundtrip(clsname))
                if not ok:
                    break
                o2 = rp[0][1]
                ctx.holds("%s/same-type#cycle%d" % (vname, cyc), isinstance(o2, Obj) and o2.cls is cls, "reloaded type %s" % (o2.cls.name if isinstance(o2, Obj) else o2), fq[1:3])
                same = isinstance(o2, Obj) and deep_equal(obj.fields, o2.fields)
                ctx.holds("%s/all-fields-equal#cycle%d" % (vname, cyc), same,
                          "fields differ: %s vs %s" % ({k: str(v) for k, v in obj.fields.items()}, {k: str(v) for k, v in (o2.fields if isinstance(o2, Obj) else {}).items()}),
                          fq, replay=replay_roundtrip(clsname))
                if isinstance(o2, Obj):
                    d = it.call_method(o2, "as_dict", [])
                    ctx.holds("%s/as_dict-idempotent#cycle%d" % (vname, cyc), deep_equal(d, dd), "", fq[:1])
        # canary: a field perturbation must be seen by the comparison
        o3 = it.call(cls, args, kw)
        for k in list(o3.fields):
            if isinstance(o3.fields[k], tm.T):
                o3.fields[k] = o3.fields[k] + 1
                break
        else:
            o3.fields["i" if "i" in o3.fields else list(o3.fields)[0]] = 99
        ctx.records.append({"kind": "canary", "name": "%s/canary-field-perturbed" % ctx.unit, "status": "refuted" if not deep_equal(obj.fields, o3.fields) else "discharged",
                            "backend": "enumeration", "seconds": 0, "detail": "", "witness": None, "functions": [], "cases": 1})
    return run


def replay_roundtrip(clsname):
    def replay(wit):
        import ciderpress.dft.transform_data as td
        import inspect
        cls = getattr(td, clsname)
        names = [n for n in inspect.signature(cls.__init__).parameters][1:]
        args = [(k + 1) if n in INDEX_NAMES else 0.37 + 0.1 * k for k, n in enumerate(names) if n != "bounds"]
        obj = cls(*args)
        out = {"class": clsname, "ctor_args": args}
        try:
            d = obj.as_dict()
            o2 = td.FeatureNormalizer.from_dict(d)
            x = np.random.RandomState(0).rand(10, 4) + 0.1
            y1, y2 = np.zeros(4), np.zeros(4)
            obj.fill_feat_(y1, x.copy())
            o2.fill_feat_(y2, x.copy())
            out["reproduced"] = bool(type(o2) is not cls or not np.array_equal(y1, y2))
        except Exception as e:
            out["reproduced"] = True
            out["exception"] = "%s: %s" % (type(e).__name__, e)
        return out
    return replay


def unit_registry(ctx):
    it = ctx.interp
    m = it.load_module(TMOD)
    classes = m.ns["ALL_CLASSES"]
    table = m.ns["ALL_CLASS_DICT"]
    FN = m.ns["FeatureNormalizer"]
    codes = [c.ns.get("code", c.lookup("code")[0]) for c in classes]
    fq = [TMOD + ":FeatureNormalizer.from_dict"]
    ctx.holds("codes-distinct", len(set(codes)) == len(codes), "codes %s" % codes, fq)
    ctx.holds("no-None-code", all(isinstance(c, str) for c in codes), "classes registered under a non-string code: %s" % [c.name for c, k in zip(classes, codes) if not isinstance(k, str)], fq,
              witness={"classes": [c.name for c, k in zip(classes, codes) if not isinstance(k, str)]}, replay=replay_roundtrip("OmegaMap"))
    ctx.holds("table-is-exactly-the-class-list", len(table) == len(classes) and all(table.get(k) is c for c, k in zip(classes, codes)), "", fq)
    # unknown code: any value not in the table (a fresh sentinel string stands for all of them: the lookup is by equality)
    for bad in ("__no_such_code__", "", "l", "omega", 7):
        rp = all_paths(it, lambda: it.call(it.getattr(FN, "from_dict"), [{"code": bad, "i": 0}], {}))
        ok = len(rp) == 1 and rp[0][0] == "raise" and isinstance(rp[0][1], ExcV) and rp[0][1].cls.name == "ValueError"
        ctx.holds("unknown-code-rejected[%r]" % (bad,), ok, "outcome %s" % [(p[0], str(p[1])) for p in rp], fq)
    rp = all_paths(it, lambda: it.call(it.getattr(FN, "from_dict"), [{"i": 0}], {}))
    ctx.holds("missing-code-is-an-error", len(rp) == 1 and rp[0][0] == "raise", "outcome %s" % [(p[0], str(p[1])) for p in rp], fq)


def unit_featlist(ctx):
    it = ctx.interp
    install_io(it)
    m = it.load_module(TMOD)
    FL = m.ns["FeatureList"]
    objs = []
    for c in m.ns["ALL_CLASSES"]:
        names, _ = init_params(c)
        args = [(k + 1) if n in INDEX_NAMES else tm.var("p%d_%s" % (len(objs), n)) for k, n in enumerate(names) if n != "bounds"]
        objs.append(it.call(c, args, {}))
    fq = [TMOD + ":FeatureList." + f for f in ("as_dict", "from_dict", "dump", "load")]
    fl = it.call(FL, [objs], {})

    def cycle_dict():
        return it.call(it.getattr(FL, "from_dict"), [yaml_copy(it.call_method(fl, "as_dict", []))], {})

    def cycle_file():
        it.call_method(fl, "dump", ["model.yaml"])
        return it.call(it.getattr(FL, "load"), ["model.yaml"], {})
    for label, thunk in (("dict", cycle_dict), ("yaml-file", cycle_file)):
        rp = all_paths(it, thunk)
        ok = len(rp) == 1 and rp[0][0] == "return"
        ctx.holds("featlist[%s].round-trip-returns" % label, ok, "outcome %s" % [(p[0], str(p[1])) for p in rp], fq, replay=replay_featlist)
        if ok:
            fl2 = rp[0][1]
            l2 = fl2.fields.get("feat_list", [])
            ctx.holds("featlist[%s].same-length" % label, len(l2) == len(objs), "%d vs %d" % (len(l2), len(objs)), fq)
            for i, (a, b) in enumerate(zip(objs, l2)):
                ctx.holds("featlist[%s].element%d(%s)-equal" % (label, i, a.cls.name), isinstance(b, Obj) and a.cls is b.cls and deep_equal(a.fields, b.fields), "", fq)
    rp = all_paths(it, lambda: it.call(it.getattr(FL, "load"), ["does-not-exist.yaml"], {}))
    ctx.holds("featlist.load-missing-file-is-an-error", all(p[0] == "raise" for p in rp), "", fq[3:])
    ctx.assume("yaml.dump followed by yaml.load is the identity on values built from dict/list/tuple/str/int/float/bool/None/ndarray/numpy scalars for the unrestricted loaders (Loader, UnsafeLoader, CLoader, CUnsafeLoader); the Full loaders raise on numpy scalars / arrays, the Safe / Base loaders also on tuples (PyYAML contract); same for joblib")


def replay_featlist(wit):
    import ciderpress.dft.transform_data as td
    import inspect
    objs = []
    for cls in td.ALL_CLASSES:
        names = [n for n in inspect.signature(cls.__init__).parameters][1:]
        objs.append(cls(*[(k + 1) if n in INDEX_NAMES else np.float64(0.37 + 0.1 * k) for k, n in enumerate(names) if n != "bounds"]))
    fl = td.FeatureList(objs)
    try:
        import os
        import tempfile
        fl2 = td.FeatureList.from_dict(fl.as_dict())
        # the file cycle too, with numpy-scalar parameters (what a fitted model carries)
        d_ = tempfile.mkdtemp()
        try:
            fl.dump(os.path.join(d_, "fl.yaml"))
            fl2 = td.FeatureList.load(os.path.join(d_, "fl.yaml"))
        finally:
            import shutil
            shutil.rmtree(d_, ignore_errors=True)
        x = np.random.RandomState(0).rand(7, 10) + 0.1
        return {"reproduced": bool(not np.array_equal(fl(x), fl2(x)))}
    except Exception as e:
        return {"reproduced": True, "exception": "%s: %s" % (type(e).__name__, e)}


def unit_spline(ctx):
    it = ctx.interp
    install_io(it)
    x = it.load_module(XMOD)
    S = x.ns["SplineSetEvaluator"]
    fq = [XMOD + ":SplineSetEvaluator." + f for f in ("to_dict", "from_dict", "__call__", "__init__")] + [XMOD + ":XCEvalSerializable.dump", XMOD + ":XCEvalSerializable.load"]
    scale = [tm.var("sc0"), tm.var("sc1")]
    ind_sets = [(0,), (1, 2)]
    grids = [[(tm.var("a0"), tm.var("b0"), 5)], [(tm.var("a1"), tm.var("b1"), 4), (tm.var("a2"), tm.var("b2"), 6)]]
    coeffs = [sym_array("c0", (7,)), sym_array("c1", (6, 8))]
    const = tm.var("const")
    ev = it.call(S, [scale, ind_sets, grids, coeffs], {"const": const})
    # spline evaluation itself is external (numba): an uninterpreted function of (grid, coeffs, X, N)

    def get_vec_eval(interp, grid, coeff, X, N):
        key = "spl_%d" % N
        flat = [tm.lift(v) for g in grid for v in g] + [tm.lift(c) for c in np.asarray(coeff, dtype=object).reshape(-1)]
        y = np.empty((X.shape[0],), dtype=object)
        dy = np.empty((X.shape[0], N), dtype=object)
        for s in range(X.shape[0]):
            a = tuple(flat + [tm.lift(v) for v in X[s]])
            y[s] = tm.T("f", (key,) + a)
            for n in range(N):
                dy[s, n] = tm.T("f", ("d%d_%s" % (n, key),) + a)
        return y, dy
    it.overrides[XMOD + ":get_vec_eval"] = lambda interp, f, args, kwargs: get_vec_eval(interp, *args)
    X1 = sym_array("X", (NS, 3))
    r0 = it.call(ev, [X1.copy()], {})

    def cyc_dict():
        return it.call(it.getattr(S, "from_dict"), [yaml_copy(it.call_method(ev, "to_dict", []))], {})

    def cyc_file():
        it.call_method(ev, "dump", ["ev.yaml"])
        return it.call(it.getattr(S, "load"), ["ev.yaml"], {})
    for label, thunk in (("dict", cyc_dict), ("yaml-file", cyc_file)):
        rp = all_paths(it, thunk)
        ok = len(rp) == 1 and rp[0][0] == "return"
        ctx.holds("spline[%s].round-trip-returns" % label, ok, "outcome %s" % [(p[0], str(p[1])) for p in rp], fq)
        if not ok:
            continue
        ev2 = rp[0][1]
        ctx.holds("spline[%s].same-type" % label, isinstance(ev2, Obj) and ev2.cls is S, "", fq)
        r1 = it.call(ev2, [X1.copy()], {})
        same = all(deep_equal(np.asarray(a, dtype=object), np.asarray(b, dtype=object)) for a, b in zip(r0, r1))
        ctx.holds("spline[%s].evaluates-identically" % label, same, "res/dres of the reloaded evaluator differ symbolically", fq)
        for k in ("nterms", "ind_sets", "spline_grids", "const"):
            ctx.holds("spline[%s].field-%s" % (label, k), deep_equal(ev.fields[k], ev2.fields[k]), "", fq)
    ctx.assume("numba cubic-spline evaluation (interpolation.splines) is a function of (grid, coefficients, X, N): uninterpreted")


def replay_load_ownership(wit):
    """Native: dump a model with joblib, load it through load_cider_model, rewrite the file with different numbers, compare the loaded model's arrays with a copy taken
    right after loading."""
    from pyvc import native
    native.install_shim()
    import os
    import shutil
    import tempfile
    import joblib
    from ciderpress.dft.model_utils import load_cider_model
    from ciderpress.dft.xc_evaluator import MappedXC, KernelEvalBase  # noqa: F401
    d_ = tempfile.mkdtemp()
    try:
        m = MappedXC.__new__(MappedXC)
        m.payload = np.arange(4000, dtype=np.float64)
        path = os.path.join(d_, "m.joblib")
        joblib.dump(m, path)
        got = load_cider_model(path, "joblib")
        before = np.array(got.payload, copy=True)
        mapped = isinstance(got.payload, np.memmap)
        m.payload = m.payload[::-1].copy()
        try:
            joblib.dump(m, path)
        except Exception:
            pass
        changed = bool(not np.array_equal(np.asarray(got.payload), before))
        return {"reproduced": bool(mapped or changed), "loaded arrays are memory maps of the file": mapped, "changed by rewriting the file": changed}
    finally:
        shutil.rmtree(d_, ignore_errors=True)


def unit_load_model(ctx):
    it = ctx.interp
    install_io(it)
    mm = it.load_module(MMOD)
    x1 = it.load_module(XMOD)
    x2 = it.load_module("ciderpress.dft.xc_evaluator2")
    f = mm.ns["load_cider_model"]
    fq = [MMOD + ":load_cider_model"]
    good1 = Obj(x1.ns["MappedXC"])
    good2 = Obj(x2.ns["MappedXC2"])
    other = Obj(x1.ns["MappedDFTKernel"])
    stored = {"good1": good1, "good2": good2, "other": other, "dict": {"a": 1}}
    names = ["m.yaml", "m.joblib", "m.txt", "m", "yaml", "m.YAML", "m.yaml.bak"]
    fmts = [None, "yaml", "joblib", "json", "pickle", "", "YAML"]
    n = 0
    for what, obj in stored.items():
        for name in names:
            it.fs = {name: obj, "joblib:" + name: obj}
            for fmt in fmts:
                rp = all_paths(it, lambda: it.call(f, [name, fmt], {}))
                eff = fmt
                if fmt is None:
                    eff = "yaml" if name.endswith(".yaml") else "joblib" if name.endswith(".joblib") else None
                supported = eff in ("yaml", "joblib")
                is_model = what in ("good1", "good2")
                ok = len(rp) == 1
                if ok:
                    o, v, _, _ = rp[0]
                    if supported and is_model:
                        ok = o == "return" and v is obj
                    else:
                        ok = o == "raise" and isinstance(v, ExcV) and v.cls.name == "ValueError"
                ctx.holds("load[%s,%s,%s]" % (what, name, fmt), ok, "outcome %s" % [(p[0], str(p[1])) for p in rp], fq)
                n += 1
    # objects passed directly
    for what, obj in stored.items():
        rp = all_paths(it, lambda: it.call(f, [obj, None], {}))
        o, v, _, _ = rp[0]
        ok = (o == "return" and v is obj) if what in ("good1", "good2") else (o == "raise" and isinstance(v, ExcV) and v.cls.name == "ValueError")
        ctx.holds("load-object[%s]" % what, ok, "outcome %s %s" % (o, v), fq)
    # ownership: a model loaded from a joblib file must not share storage with the file (joblib.load(mmap_mode=...) returns views of the file, so rewriting the
    # file — saving an updated model under the same name — would change a model already loaded)
    modes = list(getattr(it, "joblib_mmap", []))
    ctx.holds("load: the joblib branch was exercised (vacuity guard)", len(modes) > 0, "", fq)
    ctx.holds("load: a model loaded from a joblib file owns its arrays (no memory mapping of the file)", all(m is None for m in modes), "joblib.load called with mmap_mode=%s" % sorted(set(str(m) for m in modes if m is not None)), fq,
              replay=replay_load_ownership)
    ctx.assume("yaml.load / joblib.load return the stored object (library contracts; with mmap_mode set joblib returns views of the file); format strings and file names are enumerated over representatives of each branch of load_cider_model (exhaustive over its comparisons)")


AMOD = "ciderpress.pyscf.analyzers"


def unit_analyzer(ctx):
    """ElectronAnalyzer.dump / load (as_dict, from_dict) with the PySCF pieces under contract:
         gto.mole.unpack(gto.mole.pack(mol)) is a molecule equivalent to mol (ghost tag);  Grids(mol) has a settable level and build() fixes the grid for the level
         it holds at that moment;  lib.chkfile.dump / load round-trip plain containers, numbers, strings and arrays (None entries are removed before dumping).
       ensures  load(dump(a)) is an analyzer of the same class, for an equivalent molecule, with the SAME grid level for EVERY integer level (so the stored
       grid-resolved data fit the rebuilt grid), the same density matrix and orbital data, and the same stored data."""
    from pyvc.interp import Builtin
    it = ctx.interp
    am = it.load_module(AMOD)
    fq = [AMOD + ":ElectronAnalyzer.as_dict", AMOD + ":ElectronAnalyzer.from_dict", AMOD + ":ElectronAnalyzer.dump", AMOD + ":ElectronAnalyzer.load", AMOD + ":ElectronAnalyzer.__init__"]
    ctx.assume("PySCF contracts: gto.mole.pack/unpack are mutually inverse up to object identity; Grids.build() builds the grid of the level attribute held at the call; "
               "lib.chkfile.dump/load round-trip dicts of numbers, strings and arrays")

    def mk_mol(tag):
        mol = Obj(ClassV("_Mole", [], am))
        mol.fields.update({"tag": tag, "verbose": 0, "nbuild": 0})
        mol.fields["build"] = Builtin("mol.build", lambda *a, **k: mol.fields.__setitem__("nbuild", mol.fields["nbuild"] + 1))
        return mol
    mole = Obj(ClassV("_gto_mole", [], am))
    mole.fields["pack"] = Builtin("gto.mole.pack", lambda mol: {"packed_tag": mol.fields["tag"]})
    mole.fields["unpack"] = Builtin("gto.mole.unpack", lambda d: mk_mol(d["packed_tag"]))
    gto = Obj(ClassV("_gto", [], am))
    gto.fields["mole"] = mole
    am.ns["gto"] = gto

    def mk_grids(mol):
        g = Obj(ClassV("_Grids", [], am))
        g.fields.update({"mol": mol, "level": 3, "built_level": None})
        g.fields["build"] = Builtin("grids.build", lambda *a, **k: g.fields.__setitem__("built_level", g.fields["level"]))
        return g
    am.ns["Grids"] = Builtin("Grids", mk_grids)
    files = {}
    chk = Obj(ClassV("_chkfile", [], am))
    chk.fields["dump"] = Builtin("chkfile.dump", lambda fname, key, d: files.__setitem__((fname, key), yaml_copy(d)))
    chk.fields["load"] = Builtin("chkfile.load", lambda fname, key: yaml_copy(files[(fname, key)]))
    lib = Obj(ClassV("_lib", [], am))
    lib.fields["chkfile"] = chk
    am.ns["lib"] = lib
    L = tm.var("grids_level", "I")
    levels = [("symbolic level", L)] + [("level %d" % k, k) for k in (0, 1, 3, 9)]
    for cname in ("RHFAnalyzer", "UHFAnalyzer"):
        cls = am.ns[cname]
        for lab, lev in levels:
            for with_mo in (True, False):
                it.hyps = [tm.mk_le(tm.ZERO, L), tm.mk_le(L, tm.lift(9))]
                dm = sym_array("dm", (2, 2))
                occ, coeff, en = (sym_array("occ", (2,)), sym_array("mo", (2, 2)), sym_array("e", (2,))) if with_mo else (None, None, None)
                rho_data = sym_array("rho_data", (3,))

                def cycle():
                    a = it.call(cls, [mk_mol("M"), dm.copy()], {"grids_level": lev, "mo_occ": occ, "mo_coeff": coeff, "mo_energy": en})
                    it.call_method(a, "set", ["rho_data", rho_data.copy()])
                    it.call_method(a, "set", ["xc_list", ["PBE"]])
                    it.call_method(a, "dump", ["an.hdf5"])
                    return a, it.call_method(am.ns["ElectronAnalyzer"], "load", ["an.hdf5"])
                tag = "%s[%s,%s]" % (cname, lab, "with orbitals" if with_mo else "density matrix only")
                paths = all_paths(it, cycle)
                ret, exc = returned(paths)
                ctx.holds("%s: dump / load returns" % tag, len(ret) >= 1 and not exc, "%s" % [str(p[1])[:200] for p in exc], fq, replay=replay_analyzer())
                for k, ((a, b), pc) in enumerate(ret):
                    H = list(it.hyps) + list(pc)
                    ctx.holds("%s path %d: same analyzer class" % (tag, k), isinstance(b, Obj) and b.cls is cls, getattr(getattr(b, "cls", None), "name", str(b)), fq)
                    if not isinstance(b, Obj):
                        continue
                    ctx.equal("%s path %d: the reloaded analyzer has the grid level it was dumped with" % (tag, k), H, b.fields["grids_level"], lev, fq, replay=replay_analyzer())
                    ctx.equal("%s path %d: its grid was built at that level" % (tag, k), H, b.fields["grids"].fields["built_level"], lev, fq, replay=replay_analyzer())
                    if isinstance(lev, tm.T) and with_mo:
                        ctx.canary("%s path %d canary (level off by one)" % (tag, k), H, b.fields["grids_level"], lev + 1)
                    ctx.holds("%s path %d: equivalent molecule, built" % (tag, k), b.fields["mol"].fields["tag"] == "M" and b.fields["mol"].fields["nbuild"] >= 1, "", fq)
                    same = lambda x, y: (x is None and y is None) or (x is not None and y is not None and same_elements(np.asarray(x, dtype=object), np.asarray(y, dtype=object)))
                    ctx.holds("%s path %d: density matrix and orbital data identical" % (tag, k),
                              same(b.fields["dm"], dm) and same(b.fields["mo_occ"], occ) and same(b.fields["mo_coeff"], coeff) and same(b.fields["mo_energy"], en), "", fq)
                    d0, d1 = a.fields["_data"], b.fields["_data"]
                    ctx.holds("%s path %d: stored data identical" % (tag, k), sorted(d0) == sorted(d1) and same(d1["rho_data"], rho_data) and list(d1["xc_list"]) == ["PBE"], "%s vs %s" % (sorted(d0), sorted(d1)), fq)
    it.hyps = []


def replay_analyzer():
    def replay(wit):
        return {"reproduced": None, "note": "native replay needs PySCF SCF objects and HDF5; the contract-level counterexample names the level"}
    return replay


def units():
    u = [("class/" + c, unit_class(c)) for c in class_names()]
    u.append(("analyzer", unit_analyzer))
    u += [("registry", unit_registry), ("featlist", unit_featlist), ("spline", unit_spline), ("load_model", unit_load_model)]
    return u


EXPLANATION = (
    "For every registered map class with symbolic field values (bounds given and defaulted): as_dict's code maps back to the same class in "
    "ALL_CLASS_DICT, from_dict(as_dict(m)) is an instance of the same class with every field identical (so, by the C12 frame facts, evaluation "
    "is bit-identical and the cycle is idempotent); unknown codes reach ValueError; FeatureList and SplineSetEvaluator round-trip through dict and "
    "(modelled) YAML files; load_cider_model rejects every unsupported format and every non-MappedXC object with ValueError on all paths.")
TRUSTED = [
    "PyYAML / joblib round trip is the identity on plain containers, numbers, strings and ndarrays (assumed library contract)",
    "A4: Python semantics of pyvc.interp; file system modelled as a name -> value map",
    "MappedDFTKernel(2).to_dict/from_dict are not under contract: from_dict raises NotImplementedError and to_dict calls a method FeatureList does not have (it raises, it cannot mis-load) — observation only",
    "ElectronAnalyzer.dump/load: PySCF's Mole pack/unpack, Grids and chkfile by contract (unit analyzer)",
]

if __name__ == "__main__":
    sys.exit(run_property("C14", "proof", units(), EXPLANATION, TRUSTED, min_obligations=150))
