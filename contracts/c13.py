"""C13 — uniform-electron-gas reference values match the computed features.

Contracts (functions read from /repo at run time):
  settings:_get_ueg_expnt(a, t, rho)           ensures result = pi * a * (rho/2)^(2/3)        (all t, rho > 0)
  NLDFSettingsVI/VJ/VIJ/VK.ueg_vector(rho)     ensures entry = rho * mult * sum_t c_t A^p M_k(b)  with the kernels of
                                               specs/nldf_kernels.py (written from docs/features/nldf.rst), every spec in
                                               the ALLOWED_* tables (read from the repo), both rho_mult, both sl_level
  SemilocalSettings.ueg_vector(rho)            ensures = features computed by the semilocal plan at (rho, 0, tau_unif(rho))
  <normaliser>.get_ueg(rho)                    ensures = fill_fwd(1, rho, inh_UEG(slmode)) where inh_UEG is what
                                               FeatNormalizerList._get_rho_and_inh computes on the semilocal UEG vector
  FeatNormalizerList.ueg_vector / FeatureSettings.ueg_vector(with_normalizers=True)
                                               ensures = get_normalized_feature_vector(ueg_vector())
  transform_data:get_vmap_heg_value            ensures = VMap value at the UEG feature; centred VMap gives 0
"""
import json
import os
import sys
import warnings

sys.path.insert(0, os.path.dirname(os.path.dirname(os.path.abspath(__file__))))
warnings.filterwarnings("ignore")

import numpy as np
from fractions import Fraction as Q

from pyvc import terms as tm
from pyvc import vc, smt
from pyvc.framework import run_property
from contracts.common import *
from specs import nldf_kernels as K

SMOD = "ciderpress.dft.settings"
NMOD = "ciderpress.dft.feat_normalizer"
PMOD = "ciderpress.dft.plans"
TMOD = "ciderpress.dft.transform_data"

RHO = tm.var("rho")
CFC_T = Q(3, 10) * (3 * tm.PI ** 2) ** Q(2, 3)


def theta(prefix, level, hyps):
    names = ["a0", "grad_mul", "tau_mul"] if level == "MGGA" else ["a0", "grad_mul"]
    vs = [tm.var("%s_%s" % (prefix, n)) for n in names]
    hyps.append(tm.mk_lt(tm.ZERO, vs[0]))
    for v in vs[1:]:
        hyps.append(tm.mk_le(tm.ZERO, v))
    return vs


def ueg_exponent(a0):
    return tm.PI * a0 * (RHO / 2) ** Q(2, 3)


def unit_expnt(ctx):
    it = ctx.interp
    m = it.load_module(SMOD)
    a, t = tm.var("a"), tm.var("t")
    hyps = [tm.mk_lt(tm.ZERO, RHO)]
    it.hyps = hyps
    paths = all_paths(it, lambda: it.call(m.ns["_get_ueg_expnt"], [a, t, RHO], {}))
    fq = [SMOD + ":_get_ueg_expnt", SMOD + ":get_cider_exponent"]
    for i, (o, v, pc, _) in enumerate(paths):
        if o != "return":
            ok, _ = smt.feasible(hyps + pc, 3.0)
            ctx.holds("ueg_expnt.total#%d" % i, not ok, "raises %s" % (v,), fq)
            continue
        ctx.equal("ueg_expnt = pi*a*(rho/2)^(2/3)#%d" % i, hyps + pc, v, ueg_exponent(a), fq, replay=replay_expnt)
        ctx.canary("ueg_expnt.canary#%d" % i, hyps + pc, v, ueg_exponent(a) * (1 + t))
    # native conformance
    import ciderpress.dft.settings as S
    ok = True
    for _ in range(20):
        av, tv, rv = ctx.rng.uniform(0.1, 4), ctx.rng.uniform(0, 1), ctx.rng.uniform(0.01, 5)
        sym = [float(tm.evaluate(tm.lift(v), {"a": av, "t": tv, "rho": rv})) for (o, v, pc, _) in paths if o == "return"
               and all(tm.evaluate(c, {"a": av, "t": tv, "rho": rv}) for c in pc)]
        ok = ok and len(sym) == 1 and close(sym[0], S._get_ueg_expnt(av, tv, rv))
    ctx.conformance("_get_ueg_expnt", ok)


def replay_expnt(wit):
    import ciderpress.dft.settings as S
    e = env_floats(wit or {})
    a, t, r = e.get("a", 1.3), e.get("t", 0.2), e.get("rho", 0.7)
    code = S._get_ueg_expnt(a, t, r)
    spec = np.pi * a * (r / 2) ** (2.0 / 3)
    return {"reproduced": bool(abs(code - spec) > 1e-9 * (1 + abs(spec))), "a": a, "t": t, "rho": r, "code": float(code), "spec": float(spec)}


def spec_integral(terms_, A, b):
    tot = tm.ZERO
    for c, p, k in terms_:
        tot = tot + Q(c) * A ** p * K.moment(tm, b, k)
    return tot


def run_ueg(ctx, obj, hyps, fq):
    it = ctx.interp
    it.hyps = list(hyps)
    paths = all_paths(it, lambda: it.call_method(obj, "ueg_vector", [RHO]))
    good = [(v, pc) for (o, v, pc, _) in paths if o == "return"]
    bad = [(v, pc) for (o, v, pc, _) in paths if o != "return"]
    for i, (v, pc) in enumerate(bad):
        ok, _ = smt.feasible(list(hyps) + pc, 3.0)
        ctx.holds("ueg_vector.total#%d" % i, not ok, "ueg_vector raises %s for a valid settings object" % (v,), fq,
                  witness={"exception": str(v)})
    return good


def unit_vi(level, rho_mult):
    def run(ctx):
        it = ctx.interp
        m = it.load_module(SMOD)
        l0 = list(m.ns["ALLOWED_I_SPECS_L0"])
        l1 = list(m.ns["ALLOWED_I_SPECS_L1"])
        missing = [s for s in l0 if s not in K.VI_KERNELS]
        ctx.holds("VI.spec-table-covered", not missing, "specs without a documented kernel: %s" % missing)
        hyps = [tm.mk_lt(tm.ZERO, RHO)]
        th = theta("th", level, hyps)
        dots = [(-1, 0), (0, 1), (1, 1), (-1, -1)]
        fq = [SMOD + ":NLDFSettingsVI.ueg_vector", SMOD + ":NLDFSettings._ueg_rho_mult", SMOD + ":_get_ueg_expnt"]
        it.hyps = list(hyps)
        obj = it.call(m.ns["NLDFSettingsVI"], [level, th, rho_mult, l0, l1, dots], {})
        for pi_, (v, pc) in enumerate(run_ueg(ctx, obj, hyps, fq)):
            ctx.holds("VI.length#%d" % pi_, len(v) == len(l0) + len(dots), "len(ueg_vector) = %d" % len(v), fq)
            a = ueg_exponent(th[0])
            mult = tm.ONE if rho_mult == "one" else a
            for i, spec in enumerate(l0):
                if spec not in K.VI_KERNELS:
                    continue
                expect = RHO * mult * spec_integral(K.VI_KERNELS[spec], a, a)
                ctx.equal("VI[%s,%s].%s#%d" % (level, rho_mult, spec, pi_), hyps + pc, v[i], expect, fq, replay=replay_settings("VI", level, rho_mult, i))
            for j in range(len(dots)):
                ctx.equal("VI[%s,%s].l1dot%d=0#%d" % (level, rho_mult, j, pi_), hyps + pc, v[len(l0) + j], tm.ZERO, fq)
            ctx.canary("VI.canary#%d" % pi_, hyps + pc, v[1], RHO * mult * spec_integral(K.VI_KERNELS["se"], a, a))
    return run


def unit_vj(level, rho_mult, cls="NLDFSettingsVJ"):
    def run(ctx):
        it = ctx.interp
        m = it.load_module(SMOD)
        specs = list(m.ns["ALLOWED_J_SPECS"])
        hyps = [tm.mk_lt(tm.ZERO, RHO)]
        th = theta("th", level, hyps)
        fps = []
        for i, s in enumerate(specs):
            p = theta("f%d" % i, level, hyps)
            if s == "se_erf_rinv":
                e = tm.var("f%d_erf_mul" % i)
                hyps.append(tm.mk_lt(tm.ZERO, e))
                p = p + [e]
            fps.append(p)
        fq = [SMOD + ":%s.ueg_vector" % cls, SMOD + ":NLDFSettings._ueg_rho_mult", SMOD + ":_get_ueg_expnt"]
        it.hyps = list(hyps)
        if cls == "NLDFSettingsVJ":
            obj = it.call(m.ns[cls], [level, th, rho_mult, specs, fps], {})
            off = 0
        else:
            l0 = list(m.ns["ALLOWED_I_SPECS_L0"])
            l1 = list(m.ns["ALLOWED_I_SPECS_L1"])
            dots = [(-1, 0), (0, 1)]
            obj = it.call(m.ns[cls], [level, th, rho_mult, l0, l1, dots, specs, fps], {})
        for pi_, (v, pc) in enumerate(run_ueg(ctx, obj, hyps, fq)):
            a_th = ueg_exponent(th[0])
            mult = tm.ONE if rho_mult == "one" else a_th
            for i, spec in enumerate(specs):
                if spec not in K.VJ_KERNELS:
                    ctx.assume("C13: spec %s has no documented closed form; its UEG entry is not checked (C02 takes the value from the C coefficient formula)" % spec)
                    continue
                ai = ueg_exponent(fps[i][0])
                b = ai + a_th
                expect = RHO * mult * spec_integral(K.VJ_KERNELS[spec], ai, b)
                ctx.equal("%s[%s,%s].%s#%d" % (cls[-2:], level, rho_mult, spec, pi_), hyps + pc, v[i], expect, fq,
                          replay=replay_settings("VJ", level, rho_mult, i))
            if cls == "NLDFSettingsVIJ":
                # VIJ = concat(VJ, VI): j features first
                ctx.holds("VIJ.length#%d" % pi_, len(v) == len(specs) + len(l0) + len(dots), "len = %d" % len(v), fq)
                for i, spec in enumerate(l0):
                    expect = RHO * mult * spec_integral(K.VI_KERNELS[spec], a_th, a_th)
                    ctx.equal("VIJ[%s,%s].i:%s#%d" % (level, rho_mult, spec, pi_), hyps + pc, v[len(specs) + i], expect, fq)
                for j in range(len(dots)):
                    ctx.equal("VIJ[%s,%s].l1dot%d=0#%d" % (level, rho_mult, j, pi_), hyps + pc, v[len(specs) + len(l0) + j], tm.ZERO, fq)
            ctx.canary("VJ.canary#%d" % pi_, hyps + pc, v[1], RHO * mult * spec_integral(K.VJ_KERNELS["se"], ueg_exponent(fps[1][0]), ueg_exponent(fps[1][0]) + a_th))
    return run


def unit_vk(level, rho_mult):
    def run(ctx):
        it = ctx.interp
        m = it.load_module(SMOD)
        hyps = [tm.mk_lt(tm.ZERO, RHO)]
        th = theta("th", level, hyps)
        fps = [theta("f%d" % i, level, hyps) for i in range(2)]
        fq = [SMOD + ":NLDFSettingsVK.ueg_vector", SMOD + ":NLDFSettings._ueg_rho_mult", SMOD + ":_get_ueg_expnt"]
        it.hyps = list(hyps)
        obj = it.call(m.ns["NLDFSettingsVK"], [level, th, rho_mult, fps, "exponential"], {})
        for pi_, (v, pc) in enumerate(run_ueg(ctx, obj, hyps, fq)):
            a_th = ueg_exponent(th[0])
            mult = tm.ONE if rho_mult == "one" else a_th
            for i in range(len(fps)):
                ai = ueg_exponent(fps[i][0])
                expect = RHO * mult * K.moment(tm, ai, 0) * tm.mk_fn("exp", -Q(3, 2) * a_th / ai)
                ctx.equal("VK[%s,%s].%d#%d" % (level, rho_mult, i, pi_), hyps + pc, v[i], expect, fq, replay=replay_settings("VK", level, rho_mult, i))
            ctx.canary("VK.canary#%d" % pi_, hyps + pc, v[0], RHO * mult * K.moment(tm, ueg_exponent(fps[0][0]), 0))
    return run


def _native_settings(kind, level, rho_mult, e):
    import ciderpress.dft.settings as S
    n = 3 if level == "MGGA" else 2
    names = ["a0", "grad_mul", "tau_mul"][:n]
    th = [e.get("th_" + k, 1.0 + 0.1 * i) for i, k in enumerate(names)]
    if kind == "VI":
        return S.NLDFSettingsVI(level, th, rho_mult, list(S.ALLOWED_I_SPECS_L0), list(S.ALLOWED_I_SPECS_L1), [(-1, 0), (0, 1), (1, 1), (-1, -1)])
    if kind == "VJ":
        fps = []
        for i, s in enumerate(S.ALLOWED_J_SPECS):
            p = [e.get("f%d_%s" % (i, k), 0.8 + 0.1 * j) for j, k in enumerate(names)]
            if s == "se_erf_rinv":
                p.append(e.get("f%d_erf_mul" % i, 1.0))
            fps.append(p)
        return S.NLDFSettingsVJ(level, th, rho_mult, list(S.ALLOWED_J_SPECS), fps)
    fps = [[e.get("f%d_%s" % (i, k), 0.8 + 0.1 * j) for j, k in enumerate(names)] for i in range(2)]
    return S.NLDFSettingsVK(level, th, rho_mult, fps, "exponential")


def replay_settings(kind, level, rho_mult, i):
    """Native replay: the reported UEG entry against direct radial quadrature of the documented kernel."""
    def replay(wit):
        from scipy.integrate import quad
        e = env_floats(wit or {})
        rho = e.get("rho", 0.9)
        st = _native_settings(kind, level, rho_mult, e)
        code = float(np.asarray(st.ueg_vector(rho))[i])
        a_th = np.pi * st.theta_params[0] * (rho / 2) ** (2.0 / 3)
        mult = 1.0 if rho_mult == "one" else a_th
        if kind == "VI":
            spec = st.l0_feat_specs[i]
            terms_, A, b = K.VI_KERNELS[spec], a_th, a_th
            damp = 1.0
        elif kind == "VJ":
            spec = st.feat_specs[i]
            A = np.pi * st.feat_params[i][0] * (rho / 2) ** (2.0 / 3)
            terms_, b, damp = K.VJ_KERNELS.get(spec), A + a_th, 1.0
            if terms_ is None:
                return {"reproduced": None, "note": "no documented kernel"}
        else:
            A = np.pi * st.feat_params[i][0] * (rho / 2) ** (2.0 / 3)
            terms_, b, damp = [(1, 0, 0)], A, np.exp(-1.5 * a_th / A)
        val = quad(lambda r: 4 * np.pi * r * r * sum(c * A ** p * r ** (2 * k) for c, p, k in terms_) * np.exp(-b * r * r), 0, np.inf)[0]
        ref = rho * mult * val * damp
        return {"reproduced": bool(abs(code - ref) > 1e-7 * (1 + abs(ref))), "kind": kind, "index": i, "rho": rho,
                "reported": code, "quadrature_of_documented_kernel": float(ref)}
    return replay


# ---------------------------------------------------------------------------- semilocal
def semilocal_ueg_features(it, mode, nspin=1):
    """Features the semilocal plan computes for a uniform density: (rho, sigma=0, tau=CFC rho^(5/3))."""
    sm = it.load_module(SMOD)
    pm = it.load_module(PMOD)
    st = it.call(sm.ns["SemilocalSettings"], [mode], {})
    plan = it.call(pm.ns["_BaseSemilocalPlan"], [st, nspin], {})
    rho = np.empty((1, 1), dtype=object)
    rho[0, 0] = RHO
    sigma = np.empty((1, 1), dtype=object)
    sigma[0, 0] = tm.ZERO
    tau = np.empty((1, 1), dtype=object)
    tau[0, 0] = CFC_T * RHO ** Q(5, 3)
    if mode in ("nst", "npa"):
        feat = it.call_method(plan, "get_feat", [rho, sigma, tau])
    else:
        feat = it.call_method(plan, "get_feat", [rho, sigma])
    return st, feat


def unit_semilocal(mode):
    def run(ctx):
        it = ctx.interp
        hyps = [tm.mk_lt(tm.const(Q(1, 10 ** 10)), RHO)]
        it.hyps = list(hyps)
        ctx.assume("uniform-gas reference values are compared at densities above ALPHA_TOL = 1e-10 (below it s2 / alpha are cut to zero by construction)")
        fq = [SMOD + ":SemilocalSettings.ueg_vector", PMOD + ":_BaseSemilocalPlan.get_feat", PMOD + ":_BaseSemilocalPlan._fill_feat_%s_" % mode,
              SMOD + ":get_s2", SMOD + ":get_alpha"]
        res = all_paths(it, lambda: semilocal_ueg_features(it, mode))
        ctx.assume("A2: the 1e-16 regularisers in get_s2/get_alpha/dtauw are kept exact here (they vanish against sigma=0 / cancel only to O(1e-16)); rho > 1e-10")
        for pi_, (o, v, pc, _) in enumerate(res):
            if o != "return":
                ok, _ = smt.feasible(hyps + pc, 3.0)
                ctx.holds("semilocal[%s].total#%d" % (mode, pi_), not ok, "raises %s" % (v,), fq)
                continue
            st, feat = v
            rep = it.call_method(st, "ueg_vector", [RHO])
            ctx.holds("semilocal[%s].length#%d" % (mode, pi_), len(rep) == feat.shape[1], "", fq)
            for i in range(feat.shape[1]):
                f = feat[0, i, 0]
                if mode == "npa" and i == 2:
                    # alpha at the UEG is 1 up to the 1e-16 regulariser in get_single_orbital_tau (tauw = 0 exactly since sigma = 0)
                    pass
                ctx.equal("semilocal[%s].feat%d#%d" % (mode, i, pi_), hyps + pc, rep[i], f, fq)
            ctx.canary("semilocal[%s].canary#%d" % (mode, pi_), hyps + pc, rep[0], 2 * tm.lift(feat[0, 0, 0]))
    return run


# ---------------------------------------------------------------------------- normalisers
NORMS = ["ConstantNormalizer", "DensityNormalizer", "InhomogeneityNormalizer", "GeneralNormalizer"]


def unit_norm_ueg(mode):
    def run(ctx):
        it = ctx.interp
        nm = it.load_module(NMOD)
        hyps = [tm.mk_lt(tm.const(Q(1, 10 ** 10)), RHO)]
        it.hyps = list(hyps)
        st, feat = semilocal_ueg_features(it, mode)
        nsl = feat.shape[1]
        norms = [None] * nsl
        pvs = []
        for k, name in enumerate(NORMS):
            cls = nm.ns[name]
            names, _ = init_params(cls)
            pv = {n: tm.var("q%d_%s" % (k, n)) for n in names}
            pvs.append(pv)
            if "const2" in pv:
                hyps.append(tm.mk_le(tm.ZERO, pv["const2"]))
            norms.append(it.call(cls, [pv[n] for n in names], {}))
        nfeat = len(norms)
        lst = it.call(nm.ns["FeatNormalizerList"], [norms, mode], {})
        # raw UEG vector: semilocal part computed, the others symbolic raw UEG values u_k
        X = np.empty((1, nfeat, 1), dtype=object)
        for i in range(nsl):
            X[0, i, 0] = feat[0, i, 0]
        us = [tm.var("u%d" % k) for k in range(len(NORMS))]
        for k in range(len(NORMS)):
            X[0, nsl + k, 0] = us[k]
        it.hyps = list(hyps)
        fq = [NMOD + ":FeatNormalizerList.ueg_vector", NMOD + ":FeatNormalizerList.get_normalized_feature_vector",
              NMOD + ":FeatNormalizerList._get_rho_and_inh"] + [NMOD + ":%s.get_ueg" % n for n in NORMS]
        res = all_paths(it, lambda: (it.call_method(lst, "get_normalized_feature_vector", [X.copy()]), it.call_method(lst, "ueg_vector", [RHO])))
        for pi_, (o, v, pc, _) in enumerate(res):
            if o != "return":
                ok, _ = smt.feasible(hyps + pc, 3.0)
                ctx.holds("norm-ueg[%s].total#%d" % (mode, pi_), not ok, "raises %s" % (v,), fq)
                continue
            XN, uv = v
            for k, name in enumerate(NORMS):
                computed = XN[0, nsl + k, 0]
                reported = us[k] * uv[nsl + k]
                ctx.equal("norm-ueg[%s].%s#%d" % (mode, name, pi_), hyps + pc, reported, computed, fq, replay=replay_norm_ueg(mode, name, k, nsl))
            for i in range(nsl):
                ctx.equal("norm-ueg[%s].semilocal%d#%d" % (mode, i, pi_), hyps + pc, X[0, i, 0] * uv[i], XN[0, i, 0], fq)
        ctx.canary("norm-ueg[%s].canary" % mode, hyps, us[1] * uv[nsl + 1], 2 * tm.lift(XN[0, nsl + 1, 0]))
    return run


def replay_norm_ueg(mode, name, k, nsl):
    def replay(wit):
        import ciderpress.dft.feat_normalizer as fn
        import ciderpress.dft.settings as S
        import inspect
        e = env_floats(wit or {})
        rho = e.get("rho", 0.8)
        cls = getattr(fn, name)
        names = list(inspect.signature(cls.__init__).parameters)[1:]
        args = [e.get("q%d_%s" % (k, n), 0.7 + 0.2 * j) for j, n in enumerate(names)]
        norm = cls(*args)
        lst = fn.FeatNormalizerList([None] * nsl + [norm], mode)
        raw = list(S.SemilocalSettings(mode).ueg_vector(rho)) + [e.get("u%d" % k, 1.3)]
        X = np.array(raw)[None, :, None]
        computed = float(lst.get_normalized_feature_vector(X)[0, nsl, 0])
        reported = float(raw[-1] * lst.ueg_vector(rho)[nsl])
        return {"reproduced": bool(abs(computed - reported) > 1e-9 * (1 + abs(computed))), "slmode": mode, "normalizer": name, "ctor_args": args,
                "rho": rho, "raw_ueg_feature": raw[-1], "reported_normalised_ueg": reported, "computed_normalised_feature": computed}
    return replay


def unit_vmap(ctx):
    it = ctx.interp
    t = it.load_module(TMOD)
    heg, gam = tm.var("heg"), tm.var("gamma")
    hyps = [tm.mk_lt(tm.ZERO, gam), tm.mk_le(tm.ZERO, heg)]
    fq = [TMOD + ":get_vmap_heg_value", TMOD + ":VMap.fill_feat_"]
    hv = it.call(t.ns["get_vmap_heg_value"], [heg, gam], {})
    x = np.empty((1, 1), dtype=object)
    x[0, 0] = heg
    y = np.empty((1,), dtype=object)
    y[0] = tm.ZERO
    o = it.call(t.ns["VMap"], [0, gam], {"scale": 1, "center": 0})
    it.call_method(o, "fill_feat_", [y, x])
    ctx.equal("vmap.heg-value = VMap(heg)", hyps, hv, y[0], fq)
    o2 = it.call(t.ns["VMap"], [0, gam], {"scale": 1, "center": hv})
    y2 = np.empty((1,), dtype=object)
    y2[0] = tm.ZERO
    it.call_method(o2, "fill_feat_", [y2, x])
    ctx.equal("vmap.centred-at-heg = 0", hyps, y2[0], tm.ZERO, fq)
    ctx.canary("vmap.canary", hyps, hv, tm.lift(y[0]) * 2)
    # general scale: the documented recipe centres a map of any scale on the UEG value with center = scale * get_vmap_heg_value(ueg, gamma)
    # (e.g. VMap(2, 1, scale=2.0, center=1.0) for alpha, whose UEG value is 1); the declared bounds are the range of the map on x >= 0
    sc, ce = tm.var("scale"), tm.var("center")
    hs = hyps + [tm.mk_lt(tm.ZERO, sc)]
    o3 = it.call(t.ns["VMap"], [0, gam], {"scale": sc, "center": ce})
    y3 = np.empty((1,), dtype=object)
    y3[0] = tm.ZERO
    it.call_method(o3, "fill_feat_", [y3, x])
    ctx.equal("vmap[scale, center].value = scale * heg-value - center", hs, y3[0], sc * tm.lift(hv) - ce, fq, replay=replay_vmap_centre())
    o4 = it.call(t.ns["VMap"], [0, gam], {"scale": sc, "center": sc * tm.lift(hv)})
    y4 = np.empty((1,), dtype=object)
    y4[0] = tm.ZERO
    it.call_method(o4, "fill_feat_", [y4, x])
    ctx.equal("vmap[scale, center = scale * heg-value] is 0 at the UEG value", hs, y4[0], tm.ZERO, fq, replay=replay_vmap_centre())
    try:
        lo_, hi_ = it.getattr(o3, "bounds")
        ctx.valid("vmap[scale, center]: the value on x >= 0 lies within the declared bounds", hs, tm.mk_and(tm.mk_le(tm.lift(lo_), tm.lift(y3[0])), tm.mk_le(tm.lift(y3[0]), tm.lift(hi_))), fq)
    except Exception as e:
        ctx.undecided("vmap bounds readable", str(e)[:100], fq)


def replay_vmap_centre():
    def replay(wit):
        import ciderpress.dft.transform_data as td
        hv = td.get_vmap_heg_value(1.0, 1.0)
        m = td.VMap(0, 1.0, scale=2.0, center=2.0 * hv)
        y = np.zeros(1)
        m.fill_feat_(y, np.array([[1.0]]))
        return {"reproduced": bool(abs(y[0]) > 1e-14), "VMap(scale=2, center=2*heg_value) at the UEG value": float(y[0])}
    return replay


def unit_sdmx(ctx):
    """SDMX / SADM / fractional-Laplacian settings: the tabulated constants are taken as given, but the density dependence is
    decidable: a UEG feature of declared power u is u(1) * rho^(u/3), and its recommended normalisation is density independent."""
    it = ctx.interp
    m = it.load_module(SMOD)
    hyps = [tm.mk_lt(tm.ZERO, RHO)]
    it.hyps = list(hyps)
    d = {Q(1): ([0, 1, 2], [3, 2, 1, 1]), Q(2): ([1, 2], [2, 1, 1, 0]), Q(3, 2): ([0], [1, 0, 0, 0])}
    s0, s1 = tm.var("s0"), tm.var("s1")
    objs = [("SADM[smooth]", "SADMSettings", ["smooth"], {}), ("SADM[exact]", "SADMSettings", ["exact"], {}),
            ("SDMX", "SDMXSettings", [[0, 1, 2]], {}), ("SDMXG", "SDMXGSettings", [[0, 1, 2], 2], {}),
            ("SDMX1", "SDMX1Settings", [[0, 1, 2], 2], {}), ("SDMXG1", "SDMXG1Settings", [[0, 1, 2], 2, 1], {}),
            ("SDMXFull", "SDMXFullSettings", [d], {}),
            ("FracLapl", "FracLaplSettings", [[s0, s1], 2, 1, [(-1, 0), (0, 0)]], {"nd1": 1, "ld_dots": [(-1, 0)], "ndd": 1})]
    for label, cname, args, kw in objs:
        h = list(hyps) + ([tm.mk_lt(tm.const(Q(-3, 2)), s0), tm.mk_lt(tm.const(Q(-3, 2)), s1)] if cname == "FracLaplSettings" else [])
        it.hyps = list(h)
        obj = it.call(m.ns[cname], args, kw)
        fq = [SMOD + ":%s.%s" % (cname, f) for f in ("ueg_vector", "get_feat_usps", "get_reasonable_normalizer")]
        usps = list(it.call_method(obj, "get_feat_usps", []))
        v = list(it.call_method(obj, "ueg_vector", [RHO]))
        v1 = list(it.call_method(obj, "ueg_vector", [1]))
        ctx.holds("%s.len(ueg)=len(usps)" % label, len(v) == len(usps) == len(v1), "%d %d" % (len(v), len(usps)), fq)
        # history: the reported vector is a function of (settings, rho) alone — asking again, or asking a second object with the same parameters after
        # the first was asked, gives the same values (tables shared between calls must not be modified by a call)
        v_again = list(it.call_method(obj, "ueg_vector", [RHO]))
        v_other = list(it.call_method(it.call(m.ns[cname], args, kw), "ueg_vector", [RHO]))
        for i in range(min(len(v), len(v_again), len(v_other))):
            ctx.equal("%s.ueg(rho)[%d] is the same on a second call" % (label, i), h, v_again[i], v[i], fq, replay=replay_ueg_history(cname))
            ctx.equal("%s.ueg(rho)[%d] is the same for a second object with the same parameters" % (label, i), h, v_other[i], v[i], fq, replay=replay_ueg_history(cname))
        for i in range(min(len(v), len(usps))):
            ctx.equal("%s.ueg(rho)[%d] = ueg(1) * rho^(usp/3)" % (label, i), h, v[i], tm.lift(v1[i]) * tm.mk_pow(RHO, tm.lift(usps[i]) / 3), fq, replay=replay_sdmx(cname, i))
        if cname != "FracLaplSettings":
            norms = it.call_method(obj, "get_reasonable_normalizer", [])
            for i, nrm in enumerate(norms):
                if nrm is None or i >= len(v) or tm.lift(v1[i]) is tm.ZERO:
                    continue
                # (the value itself need not be 1: SDMXFull normalises by the un-averaged constant; the property asks that the
                #  reported value equals the computed one — proved generically in norm-ueg/* — and holds for every density)
                ctx.equal("%s.normalised-ueg[%d] independent of rho" % (label, i), h, tm.lift(v[i]) * tm.lift(it.call_method(nrm, "get_ueg", [RHO])),
                          tm.lift(v1[i]) * tm.lift(it.call_method(nrm, "get_ueg", [1])), fq, replay=replay_sdmx(cname, i))
        ctx.canary("%s.canary" % label, h, v[0], tm.lift(v1[0]) * RHO ** 2)
    ctx.assume("SDMX / SADM UEG constants at rho = 1 and the fractional-Laplacian Gamma-function closed form are taken as given; their density dependence and normalisation are checked")


_SDMX_ARGS = {"SADMSettings": ["smooth"], "SDMXSettings": [[0, 1, 2]], "SDMXGSettings": [[0, 1, 2], 2], "SDMX1Settings": [[0, 1, 2], 2],
              "SDMXG1Settings": [[0, 1, 2], 2, 1], "SDMXFullSettings": [{1.0: ([0, 1, 2], [3, 2, 1, 1]), 2.0: ([1, 2], [2, 1, 1, 0]), 1.5: ([0], [1, 0, 0, 0])}]}


def _native_ueg_history(cname, rho):
    """The call history of unit_sdmx for one class, on the real code in a fresh process (module-level caches start empty, as in the unit)."""
    import subprocess
    code = ("import json, numpy as np\n"
            "import ciderpress.dft.settings as S\n"
            "args = %r\n"
            "st = getattr(S, %r)(*args)\n"
            "usps = [float(u) for u in st.get_feat_usps()]\n"
            "v = [float(x) for x in np.asarray(st.ueg_vector(%r))]\n"
            "v1 = [float(x) for x in np.asarray(st.ueg_vector(1))]\n"
            "va = [float(x) for x in np.asarray(st.ueg_vector(%r))]\n"
            "vo = [float(x) for x in np.asarray(getattr(S, %r)(*args).ueg_vector(%r))]\n"
            "print(json.dumps(dict(usps=usps, v=v, v1=v1, v_again=va, v_other=vo)))\n") % (_SDMX_ARGS[cname], cname, rho, rho, cname, rho)
    cp = subprocess.run(["/venv/bin/python", "-c", code], capture_output=True, text=True, timeout=300, cwd=os.environ.get("CIDERPRESS_REPO", "/repo"))
    if cp.returncode != 0:
        raise RuntimeError(cp.stderr[-300:])
    return json.loads(cp.stdout.strip().splitlines()[-1])


def replay_ueg_history(cname):
    def replay(wit):
        if cname not in _SDMX_ARGS:
            return {"reproduced": None, "note": "no native history replay for %s" % cname}
        h = _native_ueg_history(cname, 0.8)
        dev = max([abs(x - y) for x, y in zip(h["v"], h["v_again"])] + [abs(x - y) for x, y in zip(h["v"], h["v_other"])])
        return {"reproduced": bool(dev > 0), "first_call": h["v"][:4], "second_call": h["v_again"][:4], "fresh_object_afterwards": h["v_other"][:4]}
    return replay


def replay_sdmx(cname, i):
    def replay(wit):
        e = env_floats(wit or {})
        rho = e.get("rho", 0.6)
        if abs(rho - 1) < 1e-3:
            rho = 0.6
        if cname not in _SDMX_ARGS:
            return {"reproduced": None}
        h = _native_ueg_history(cname, rho)
        a, b = h["v"][i], h["v1"][i] * rho ** (h["usps"][i] / 3.0)
        return {"reproduced": bool(abs(a - b) > 1e-9 * (1 + abs(b))), "class": cname, "feature": i, "rho": rho, "ueg_vector(rho)": a, "ueg_vector(1)*rho^(usp/3)": b}
    return replay


FL_POWERS = [Q(-1), Q(-1, 2), Q(0), Q(1, 4), Q(1, 2), Q(1), Q(5, 4), Q(3, 2), Q(7, 4), Q(2), Q(5, 2)]


def unit_fraclapl(ctx):
    """FracLaplSettings.ueg_vector: the scalar feature of power s is (-Laplacian')^s of the density matrix on the diagonal; for the uniform gas (plane waves,
    two electrons per k inside the Fermi sphere)   F_s = 2 * integral_{|k| < kf} k^(2s) d3k / (2 pi)^3 = (1 / pi^2) * integral_0^kf k^(2 + 2s) dk,   kf = (3 pi^2 rho)^(1/3),
    finite for every s > -3/2.  Spec lemma: the closed form kf^(3+2s) / (pi^2 (3+2s)) has derivative kf^(2+2s) / pi^2 and vanishes at kf = 0.  Code against the
    spec for each power of FL_POWERS (including s > 1, which the feature definition allows)."""
    it = ctx.interp
    m = it.load_module(SMOD)

    def gamma_ext(interp, x):
        x = tm.lift(x)
        if x.op == "c" and x.args[0].denominator == 1 and x.args[0] <= 0:
            raise Unsupported("Gamma function evaluated at the pole %s" % x.args[0])
        return tm.mk_fn("gamma", x)
    it.externals["scipy.special.gamma"] = gamma_ext
    hyps = [tm.mk_lt(tm.ZERO, RHO)]
    it.hyps = list(hyps)
    fq = [SMOD + ":FracLaplSettings.ueg_vector"]
    kf = tm.var("kf")
    for sp in FL_POWERS:
        p = 3 + 2 * sp
        spec_kf = kf ** p / (tm.PI ** 2 * p)
        ctx.equal("spec lemma s=%s: d/dkf of the closed form is the radial integrand kf^(2+2s) / pi^2" % sp, [tm.mk_lt(tm.ZERO, kf)], tm.diff(spec_kf, kf), kf ** (p - 1) / tm.PI ** 2, [])
        try:
            obj = it.call(m.ns["FracLaplSettings"], [[sp], 1, 0, []], {})
            v = list(it.call_method(obj, "ueg_vector", [RHO]))
        except (PyRaise, Unsupported) as e:
            ctx.undecided("FracLapl s=%s: ueg_vector runs" % sp, str(e)[:200], fq)
            continue
        spec = tm.mk_pow(3 * tm.PI ** 2 * RHO, tm.const(p / 3)) / (tm.PI ** 2 * p)
        ctx.equal("FracLapl s=%s: reported UEG value = (1/pi^2) * integral_0^kf k^(2+2s) dk" % sp, hyps, v[0], spec, fq, replay=replay_fraclapl(sp))
    ctx.canary("FracLapl canary", hyps, tm.mk_pow(3 * tm.PI ** 2 * RHO, tm.const(Q(5, 3))) / (5 * tm.PI ** 2), tm.mk_pow(3 * tm.PI ** 2 * RHO, tm.const(Q(5, 3))) / (3 * tm.PI ** 2))


def replay_fraclapl(sp):
    def replay(wit):
        import ciderpress.dft.settings as S
        from scipy.integrate import quad
        rho = 0.7
        s_ = float(sp)
        got = float(S.FracLaplSettings([s_], 1, 0, []).ueg_vector(rho)[0])
        kf = (3 * np.pi ** 2 * rho) ** (1.0 / 3)
        want = quad(lambda k: k ** (2 + 2 * s_), 0, kf)[0] / np.pi ** 2
        return {"reproduced": bool(not np.isfinite(got) or abs(got - want) > 1e-8 * abs(want)), "s": s_, "rho": rho, "ueg_vector": got, "quadrature_of_the_momentum_space_definition": want}
    return replay


def units():
    u = [("ueg_expnt", unit_expnt), ("vmap", unit_vmap), ("sdmx", unit_sdmx), ("fraclapl", unit_fraclapl)]
    for level in ("MGGA", "GGA"):
        for rm in ("one", "expnt"):
            u.append(("VI/%s/%s" % (level, rm), unit_vi(level, rm)))
            u.append(("VJ/%s/%s" % (level, rm), unit_vj(level, rm)))
            u.append(("VIJ/%s/%s" % (level, rm), unit_vj(level, rm, "NLDFSettingsVIJ")))
            u.append(("VK/%s/%s" % (level, rm), unit_vk(level, rm)))
    for mode in ("nst", "npa", "ns", "np"):
        u.append(("semilocal/" + mode, unit_semilocal(mode)))
        u.append(("norm-ueg/" + mode, unit_norm_ueg(mode)))
    return u


EXPLANATION = (
    "For symbolic density rho > 0 and symbolic exponent parameters: every closed-form UEG entry reported by the NLDF settings classes "
    "(versions i, j, ij, k; every spec in the repository's ALLOWED_* tables; both rho_mult options; GGA and MGGA) is proved equal to "
    "rho * mult * integral of the documented kernel (Gaussian moment table), the semilocal UEG vectors equal the features the semilocal "
    "plan computes at (rho, 0, tau_unif), the normalisers' reported UEG factors equal what the normaliser list computes on the UEG feature "
    "vector, and the VMap UEG value/centring identities hold.  Tabulated SDMX constants, the fractional-Laplacian Gamma-function value and "
    "se_erf_rinv (no documented closed form) are taken as given and listed.")
TRUSTED = [
    "A1: reals for doubles; A3/A4: numpy/Python semantics of pyvc",
    "specs/nldf_kernels.py transcribes docs/features/nldf.rst and the ALLOWED_*_SPECS docstrings; Gaussian moment formula M_k(b) (standard; cross-checked by quadrature in replays)",
    "SDMX UEG constants (tabulated numbers) and se_erf_rinv are not checked; FracLaplSettings.ueg_vector is checked against the momentum-space definition for the powers of FL_POWERS",
    "documented exponent at the UEG is pi*A*(n/2)^(2/3) with A = theta_params[0] / feat_params[i][0] (the documented reparametrisation is C02's obligation)",
]

if __name__ == "__main__":
    sys.exit(run_property("C13", "proof", units(), EXPLANATION, TRUSTED, min_obligations=100))
