"""C20 — the FFT plan wrapper computes the DFT it advertises.

What contracts can decide here is the *layout* half of the statement; the transform itself is FFTW's (assumed contract, see below).

  allocate_fftnd_plan (C, engine C, value mode), for ndim in 1..4 and all 16 flag combinations, symbolic dims[] and ntransform:
        ensures plan->ndim = ndim, plan->dims[i] = dims[i], and  fft_in_size / fft_out_size / stride / idist / odist  equal the closed forms
                written from the documentation comment of the function and FFTW's advanced-interface layout:
                N = prod dims,  K = prod dims[:-1] * (dims[-1]/2 + 1);   c2c: in = out = N;   r2c: complex side K, real side 2K if inplace else N;
                batch_first: stride 1, dist = size;  batch last: stride = ntransform, dist = 1
  initialize_fft_plan  ensures the planner is called with rank = ndim, n = the plan's dims, howmany = ntransform, (stride, dist) as above for
                input and output, and the same buffer for in and out iff inplace
  write_fft_input / read_fft_output (summaries): every logical element (t, i_0..i_{n-1}) of the numpy array of the advertised shape is copied
                to / from the address FFTW's advanced interface assigns to it:   t*dist + rowmajor_phys(i)*stride  with the physical last
                extent 2*(d/2+1) for in-place real data; copies stay inside the numpy buffer and inside the malloc'ed plan buffer; different
                iterations of the parallel copy loops write different elements
  FFTWrapper.__init__ (Python): input_shape / output_shape are the row-major shapes of those layouts (batch first / last, r2c halving),
                and the forward plan's output shape is the backward plan's input shape
  FFTWrapper.call      rejects every input whose shape differs from input_shape (any rank)

Assumed (external): fftw_plan_many_dft(_r2c,_c2r) + fftw_execute compute the unnormalised DFT of howmany transforms laid out as described
by (rank, n, howmany, stride, dist) with nembed = NULL, so that forward followed by backward returns N times the input.
Bounds: ndim <= 4 (loops over the dimensions are unrolled).  Integer truncation: size_t sizes are stored to int fields: requires ntransform*prod(dims) < 2^31 (reported).
"""
import itertools
import os
import sys

sys.path.insert(0, os.path.dirname(os.path.dirname(os.path.abspath(__file__))))

import warnings
import numpy as np

warnings.filterwarnings("ignore")

from pyvc import terms as tm
from pyvc import vc, smt, intarith
from pyvc.nf import NF, NFError
from pyvc.framework import run_property
from pyvc.interp import PyRaise, Unsupported, ExcV
from contracts.common import sym_array, all_paths, same_elements
from cvc import cparse, oblig
from cvc.csym import CSym, Arr, Ptr, Struct, Undef, CUnsupported, fresh

CF = "fft_wrapper/cider_fft.c"
FQ = lambda *fs: ["lib/%s:%s" % (CF, f) for f in fs]
I = lambda n: tm.var(n, "I")
FLAGS = list(itertools.product((1, 0), repeat=4))      # fwd, r2c, inplace, batch_first


def dimsym(i):
    return tm.mk_fi("dims", tm.const(i))


def spec_sizes(ndim, fwd, r2c, inplace, batch_first, nt):
    d = [dimsym(i) for i in range(ndim)]
    N = tm.mk_mul(*d)
    half = tm.mk_fn("idiv", d[-1], tm.const(2)) + 1
    K = tm.mk_mul(*(d[:-1] + [half]))
    if r2c:
        real = 2 * K if inplace else N
        ins, outs = (real, K) if fwd else (K, real)
    else:
        ins = outs = N
    if batch_first:
        return ins, outs, tm.ONE, ins, outs
    return ins, outs, nt, tm.ONE, tm.ONE


def run_allocate(ndim, fwd, r2c, inplace, batch_first, nt):
    tu = cparse.load(CF)
    cap = {}

    def many(name):
        def f(sym, args):
            cap["planner"] = (name, args)
            return 0
        return f
    s = CSym([tu], contracts={"cider_fft_initialize": lambda sym, a: 0, "fftw_plan_many_dft": many("c2c"), "fftw_plan_many_dft_r2c": many("r2c"),
                              "fftw_plan_many_dft_c2r": many("c2r"), "fftw_destroy_plan": lambda sym, a: 0})
    plan = s.run("allocate_fftnd_plan", dict(ndim=ndim, dims=Ptr(Arr("dims", "int")), fwd=fwd, r2c=r2c, ntransform=nt, inplace=inplace, batch_first=batch_first))
    return s, plan, cap, tu


def unit_plan(ndim):
    def run(ctx):
        nt = I("ntransform")
        fq = FQ("allocate_fftnd_plan", "initialize_fft_plan", "initialize_fftw_settings")
        H = [tm.mk_lt(tm.ZERO, dimsym(i)) for i in range(ndim)] + [tm.mk_lt(tm.ZERO, nt)]
        for fwd, r2c, inplace, bf in FLAGS:
            tag = "ndim%d[fwd=%d,r2c=%d,inplace=%d,batch_first=%d]" % (ndim, fwd, r2c, inplace, bf)
            try:
                s, plan, cap, tu = run_allocate(ndim, fwd, r2c, inplace, bf, nt)
            except CUnsupported as e:
                ctx.undecided("%s allocate summarised" % tag, "left the supported C subset: %s" % e, fq)
                continue
            ok = isinstance(plan, Struct)
            ctx.holds("%s returns a plan object" % tag, ok, repr(plan), fq)
            if not ok:
                continue
            f = plan.fields
            ins, outs, stride, idist, odist = spec_sizes(ndim, fwd, r2c, inplace, bf, nt)
            for name, want in (("ndim", tm.const(ndim)), ("ntransform", nt), ("fwd", tm.const(fwd)), ("r2c", tm.const(r2c)), ("inplace", tm.const(inplace)), ("batch_first", tm.const(bf)),
                               ("fft_in_size", ins), ("fft_out_size", outs), ("stride", stride), ("idist", idist), ("odist", odist)):
                v = f.get(name)
                if not isinstance(v, (int, tm.T)) and not hasattr(v, "numerator"):
                    ctx.holds("%s plan->%s = %s" % (tag, name, tm.show(want, 60)), False, "field holds %r" % (v,), fq)
                    continue
                ctx.equal("%s plan->%s = %s" % (tag, name, tm.show(tm.lift(want), 70)), H, tm.lift(v), want, fq)
            # dims copied element-wise into the plan's own array
            dp = f.get("dims")
            wr = {}
            if isinstance(dp, Ptr):
                for e in s.events:
                    if e.kind == "w" and e.arr is dp.arr and e.idx.op == "c":
                        wr[int(e.idx.args[0])] = e
            for i in range(ndim):
                e = wr.get(i)
                ctx.holds("%s plan->dims[%d] = dims[%d]" % (tag, i, i), e is not None and not e.guards and tm.lift(e.val) is dimsym(i), "%r" % (e,), fq, replay=replay_plan(ndim, fwd, r2c, inplace, bf))
            ctx.holds("%s plan->dims has exactly ndim entries written" % tag, sorted(wr) == list(range(ndim)), str(sorted(wr)), fq)
            # capacity of the plan's own dims array: malloc(ndim * sizeof(int)) or a member array of fixed capacity
            if isinstance(dp, Ptr):
                cap_ = None
                if dp.arr.extent is not None and tm.lift(dp.arr.extent).op == "c":
                    cap_ = int(tm.lift(dp.arr.extent).args[0])
                elif isinstance(getattr(dp.arr, "bytes", None), int):
                    cap_ = dp.arr.bytes // 4
                if cap_ is None:
                    ctx.undecided("%s capacity of plan->dims" % tag, "allocation size %r is not a constant for this rank" % (getattr(dp.arr, "bytes", None),), fq)
                else:
                    ctx.holds("%s every write to plan->dims is inside its capacity (%d entries)" % (tag, cap_), all(0 <= i < cap_ for i in wr),
                              "indices written %s" % sorted(wr), fq, witness={"ndim": ndim, "capacity": cap_}, replay=replay_plan(ndim, fwd, r2c, inplace, bf))
            # planner call
            inb, outb = Ptr(Arr("in_array", "double")), Ptr(Arr("out_array", "double"))
            try:
                s.run("initialize_fft_plan", dict(plan=plan, in_array=inb, out_array=None if inplace else outb))
            except CUnsupported as e:
                ctx.undecided("%s initialize summarised" % tag, str(e), fq)
                continue
            pc = cap.get("planner")
            ctx.holds("%s planner called" % tag, pc is not None and pc[0] == ("c2c" if not r2c else ("r2c" if fwd else "c2r")), "%r" % (pc[0] if pc else None,), fq)
            if pc is None:
                continue
            a = pc[1]
            rank, n_, howmany, in_, inemb, istr, idi, out_, onemb, ostr, odi = a[:11]
            ctx.holds("%s planner rank / n / nembed" % tag, rank == ndim and isinstance(n_, Ptr) and isinstance(dp, Ptr) and n_.arr is dp.arr and inemb is None and onemb is None, "", fq)
            ctx.equal("%s planner howmany" % tag, H, tm.lift(howmany), nt, fq)
            for nm, got, want in (("istride", istr, stride), ("ostride", ostr, stride), ("idist", idi, idist), ("odist", odi, odist)):
                ctx.equal("%s planner %s" % (tag, nm), H, tm.lift(got), want, fq)
            same = isinstance(in_, Ptr) and isinstance(out_, Ptr) and in_.arr is out_.arr
            ctx.holds("%s planner in/out buffers (same iff inplace)" % tag, same == bool(inplace) and in_.arr is inb.arr, "", fq)
            if not r2c:
                ctx.holds("%s transform direction" % tag, a[11] == (-1 if fwd else 1), str(a[11]), fq)
        ctx.canary("ndim%d canary" % ndim, H, spec_sizes(ndim, 1, 0, 1, 1, nt)[0], spec_sizes(ndim, 1, 0, 0, 1, nt)[0] + 1)
        ctx.assume("int fields stride/idist/odist receive size_t values: requires ntransform * prod(dims) < 2^31 (not checked by the code; reported precondition)")
    return run


def replay_plan(ndim, fwd, r2c, inplace, bf):
    def replay(wit):
        return {"reproduced": None, "note": "FFTW is not installed in this sandbox: cider_fft.c cannot be executed natively; the failed obligation and the engine's summary stand as the report"}
    return replay


# ------------------------------------------------------------------ copies
def plan_struct(ndim, fwd, r2c, inplace, bf, nt, tu):
    ins, outs, stride, idist, odist = spec_sizes(ndim, fwd, r2c, inplace, bf, nt)
    fields = {"is_initialized": 1, "ndim": ndim, "dims": Ptr(Arr("dims", "int")), "r2c": r2c, "ntransform": nt, "fft_in_size": ins, "fft_out_size": outs,
              "fwd": fwd, "batch_first": bf, "inplace": inplace, "stride": stride, "idist": idist, "odist": odist,
              "in": Ptr(Arr("plan_in", "double")), "out": Ptr(Arr("plan_in" if inplace else "plan_out", "double")), "plan": None}
    return Struct("fft_plan", fields)


def unit_copy(ndim, which):
    """write_fft_input / read_fft_output against the layouts (plan invariant = postcondition of allocate, proved in unit_plan)."""
    def run(ctx):
        nt = I("ntransform")
        fn = "write_fft_input" if which == "in" else "read_fft_output"
        fq = FQ(fn)
        d = [dimsym(i) for i in range(ndim)]
        H0 = [tm.mk_lt(tm.ZERO, x) for x in d] + [tm.mk_lt(tm.ZERO, nt)]
        tu = cparse.load(CF)
        for fwd, r2c, inplace, bf in FLAGS:
            tag = "%s ndim%d[fwd=%d,r2c=%d,inplace=%d,batch_first=%d]" % (fn, ndim, fwd, r2c, inplace, bf)
            plan = plan_struct(ndim, fwd, r2c, inplace, bf, nt, tu)
            s = CSym([tu], footprint=False)
            user = Ptr(Arr("user", "double"))
            try:
                s.run(fn, dict(plan=plan, **({"input": user} if which == "in" else {"output": user})))
            except CUnsupported as e:
                ctx.undecided("%s summarised" % tag, "left the supported C subset: %s" % e, fq)
                continue
            real_side = bool(r2c) and (bool(fwd) == (which == "in"))       # the user array holds real data
            padded = real_side and bool(inplace)
            buf = "plan_in" if (which == "in" or inplace) else "plan_out"
            # a copy of C99 complex elements is summarised as two parallel copies (real / imaginary companion arrays, same element index): the real
            # part stands for the element, the imaginary part is required to mirror it
            nm = lambda e: getattr(getattr(e.arr, "byte_parent", e.arr), "cx_parent", getattr(e.arr, "byte_parent", e.arr)).name
            im_w = [e for e in s.events if e.kind == "w" and getattr(e.arr, "cx_part", None) == "im"]
            re_w = [e for e in s.events if e.kind == "w" and getattr(e.arr, "cx_part", None) == "re"]
            if im_w or re_w:
                ctx.holds("%s complex elements are copied whole (real and imaginary part at the same element index)" % tag,
                          len(im_w) == len(re_w) and all(a.idx is b.idx and a.op == b.op and len(a.guards) == len(b.guards) for a, b in zip(re_w, im_w)), "", fq)
            wr = [e for e in s.events if e.kind == "w" and getattr(e.arr, "cx_part", "re") == "re"]
            rd = [e for e in s.events if e.kind == "r" and nm(e) in ("user", buf) and getattr(e.arr, "cx_part", "re") == "re"]
            from contracts import outcover
            team_dep = any(outcover._is_team_size(u) for e_ in wr for t_ in [tm.lift(e_.idx)] + [tm.lift(g_) for g_ in e_.guards] + [tm.lift(x_) for q in e_.qvars for x_ in q[1:3]]
                           for u in tm.subterms(t_).values())
            if wr and (any(outcover._is_tid(q[0]) for e_ in wr for q in e_.qvars) or team_dep or (len(wr) != 1 and not padded)):
                # the copy is chunked by thread id (code run by every thread of a region, e.g. one memcpy per thread): no single copy loop to match —
                # dense identity copy + coverage + bounds + disjointness, per team size
                if padded:
                    ctx.undecided("%s thread-chunked copy of padded real data" % tag, "only dense copies are handled for code that chunks by thread id", fq)
                    continue
                dst_name, src_name = (buf, "user") if which == "in" else ("user", buf)
                okc = True
                nfc_ = NF()
                for e_ in wr:
                    v_ = tm.lift(e_.val)
                    same_idx = False
                    if v_.op == "f" and str(v_.args[0]).startswith("rd:") and str(v_.args[0])[3:].split(".")[0] == src_name:
                        try:
                            same_idx = nfc_.equal(v_.args[1], tm.lift(e_.idx))
                        except NFError:
                            same_idx = False
                    okc = okc and e_.op == "=" and nm(e_) == dst_name and same_idx
                ctx.holds("%s every store copies element k of the source to element k of the destination (dense layouts coincide)" % tag, okc, "", fq)
                assumes = oblig.side_hyps(s)
                nuser = nt * tm.mk_mul(*(d[:-1] + [tm.mk_fn("idiv", d[-1], tm.const(2)) + 1] if (r2c and not real_side) else list(d)))
                scales = set(getattr(e_.arr, "elem_size", 1) for e_ in wr)
                if len(scales) != 1:
                    ctx.undecided("%s copy granularity" % tag, "stores at element and at byte granularity mixed", fq)
                    continue
                nuser = nuser * scales.pop()            # a copy through (char *) views is checked byte by byte
                j = I("j_target")
                outcover.record(ctx, "%s every element of the advertised array is copied, whatever the team size" % tag, wr, [(j, 0, nuser)], j, H0 + assumes, fq)
                outcover.team_bounds(ctx, "%s every thread's copy stays inside both buffers" % tag, wr, nuser, H0 + assumes, fq)
                if any(outcover._is_tid(q[0]) for e_ in wr for q in e_.qvars):
                    outcover.team_disjoint(ctx, "%s different threads copy different elements" % tag, wr, H0 + assumes, fq)
                continue
            ctx.holds("%s one copy loop" % tag, len(wr) == 1 and wr[0].op == "=", "%d writes" % len(wr), fq)
            if len(wr) != 1:
                continue
            w = wr[0]
            src = [e for e in rd if nm(e) == ("user" if which == "in" else buf)]
            ctx.holds("%s copies between the user array and the plan buffer" % tag, nm(w) == (buf if which == "in" else "user") and len(src) >= 1, "%s <- %s" % (nm(w), [nm(e) for e in rd]), fq)
            if not src:
                continue
            r = src[0]
            uidx, pidx = (r.idx, w.idx) if which == "in" else (w.idx, r.idx)
            guards = list(w.guards)
            assumes = oblig.side_hyps(s)
            # logical element (t, i_0 .. i_{n-1}); physical last extent of real in-place data is 2*(d/2+1)
            tv = I("t")
            iv = [I("i%d" % k) for k in range(ndim)]
            Hl = H0 + assumes + [tm.mk_le(tm.ZERO, tv), tm.mk_lt(tv, nt)] + [c for k in range(ndim) for c in (tm.mk_le(tm.ZERO, iv[k]), tm.mk_lt(iv[k], d[k]))]
            half = tm.mk_fn("idiv", d[-1], tm.const(2)) + 1
            if r2c and not real_side:
                # complex side of an r2c plan: last logical extent is d/2+1
                Hl = [h for h in Hl if h is not tm.mk_lt(iv[-1], d[-1])] + [tm.mk_lt(iv[-1], half)]
                log_ext = d[:-1] + [half]
            else:
                log_ext = list(d)
            phys_ext = d[:-1] + [2 * half] if padded else list(log_ext)

            def rm(ext):
                off = tm.ZERO
                for k in range(ndim):
                    off = off * ext[k] + iv[k]
                return off
            stride = tm.ONE if bf else nt
            dist_phys = tm.mk_mul(*phys_ext) if bf else tm.ONE
            dist_log = tm.mk_mul(*log_ext) if bf else tm.ONE
            fftw_off = tv * dist_phys + rm(phys_ext) * stride          # FFTW advanced interface, nembed = NULL
            numpy_off = tv * dist_log + rm(log_ext) * stride           # C-order numpy array of the advertised shape
            # witness iteration of the copy loop for that element
            qv = [q[0] for q in w.qvars]
            if len(qv) == 1:
                wit = {qv[0]: numpy_off}
            elif len(qv) == 2:
                lead = tm.ZERO
                for k in range(ndim - 1):
                    lead = lead * d[k] + iv[k]
                if bf:
                    rows = tm.mk_mul(*d[:-1]) if ndim > 1 else tm.ONE
                    wit = {qv[0]: tv * rows + lead, qv[1]: iv[-1]}
                else:
                    wit = {qv[0]: lead, qv[1]: iv[-1] * nt + tv}
            else:
                ctx.undecided("%s copy loop shape" % tag, "%d loop variables" % len(qv), fq)
                continue
            ctx.holds("%s padded row copy is used exactly for in-place real data" % tag, (len(qv) == 2) == padded, "loop nest depth %d, padded=%s" % (len(qv), padded), fq)
            sub = lambda t_: tm.substitute(tm.lift(t_), wit)
            el = "element (t, i) of the advertised array"
            nm1 = "%s %s is read/written at its numpy offset" % (tag, el)
            nm2 = "%s %s is stored at the address FFTW's (n, howmany, stride, dist) layout assigns to it" % (tag, el)
            ctx.equal(nm1, Hl, sub(uidx), numpy_off, fq)
            ctx.equal(nm2, Hl, sub(pidx), fftw_off, fq)
            for gi, g in enumerate(guards):
                r_, env, be = intarith.check_sat_int(Hl + [tm.mk_not(sub(g))], ctx.timeout)
                nmg = "%s the copy loop reaches every element (loop guard %d holds at the element's iteration)" % (tag, gi)
                if r_ == "unsat":
                    ctx._rec("obligation", nmg, vc.Verdict("discharged", be), fq)
                elif r_ == "sat":
                    ctx._rec("obligation", nmg, vc.Verdict("refuted", be, "an element of the advertised array is never copied", witness=env), fq)
                else:
                    ctx.undecided(nmg, "solver unknown", fq)
            # bounds: every iteration stays inside the numpy buffer (prod of the advertised shape) and inside the malloc'ed plan buffer
            nuser = nt * tm.mk_mul(*log_ext)
            nplan = nt * (plan.fields["fft_in_size"] if buf == "plan_in" and which == "in" or (inplace and which == "out" and False) else
                          (plan.fields["fft_in_size"] if buf == "plan_in" else plan.fields["fft_out_size"]))
            if inplace and which == "out":
                nplan = nt * plan.fields["fft_out_size"]
            Hg = H0 + assumes + guards
            for what, idx_, ext in (("numpy buffer", uidx, nuser), ("plan buffer", pidx, nplan)):
                r_, env, be = intarith.check_sat_int(Hg + [tm.mk_not(tm.mk_and(tm.mk_le(tm.ZERO, idx_), tm.mk_lt(idx_, ext)))], ctx.timeout)
                nmb = "%s every iteration stays inside the %s" % (tag, what)
                if r_ == "unsat":
                    ctx._rec("obligation", nmb, vc.Verdict("discharged", be), fq)
                elif r_ == "sat":
                    ctx._rec("obligation", nmb, vc.Verdict("refuted", be, "out-of-bounds copy", witness=env), fq)
                else:
                    ctx.undecided(nmb, "solver unknown", fq)
            # race freedom of the parallel copy loop
            idx2, g2, m, extra = oblig.rename_local(w, assumes)
            par2 = m.get(w.par)
            if par2 is not None:
                r_, env, be = intarith.check_sat_int(H0 + assumes + extra + guards + g2 + [tm.mk_eq(w.idx, idx2), tm.mk_not(tm.mk_eq(w.par, par2))], ctx.timeout)
                nmr = "%s different iterations of the parallel copy write different elements" % tag
                if r_ == "unsat":
                    ctx._rec("obligation", nmr, vc.Verdict("discharged", be), fq)
                elif r_ == "sat":
                    ctx._rec("obligation", nmr, vc.Verdict("refuted", be, "", witness=env), fq)
                else:
                    ctx.undecided(nmr, "solver unknown", fq)
        ctx.canary("%s ndim%d canary" % (fn, ndim), H0, dimsym(0) * nt, dimsym(0) * nt + 1)
    return run


# ------------------------------------------------------------------ Python wrapper
PMOD = "ciderpress.lib.fft_plan"


def unit_python(ctx):
    it = ctx.interp
    fq = [PMOD + ":FFTWrapper.__init__", PMOD + ":FFTWrapper.call"]
    calls = []

    def mk(name, ret=0):
        def f(interp, *a):
            calls.append((name, a))
            return ret
        return f
    mod = it.load_module(PMOD)
    lib = mod.ns["libfft"]
    for fn in ("allocate_fftnd_plan", "malloc_fft_plan_in_array", "malloc_fft_plan_out_array", "initialize_fft_plan", "free_fft_plan", "free_fft_array",
               "write_fft_input", "execute_fft_plan", "read_fft_output"):
        it.externals["%s.%s" % (lib.name, fn)] = mk(fn, 7)
    # the plan's own buffers (C-side memory that lives as long as the plan): a pointer to them is a pointer to ONE array per library object
    from pyvc.npmodel import CPtr
    planbuf = {"in": np.array([tm.var("planbuf_in_%d" % k) for k in range(4096)], dtype=object), "out": np.array([tm.var("planbuf_out_%d" % k) for k in range(4096)], dtype=object)}
    it.externals["%s.get_fft_plan_in_array" % lib.name] = lambda interp, *a: CPtr(planbuf["in"])
    it.externals["%s.get_fft_plan_out_array" % lib.name] = lambda interp, *a: CPtr(planbuf["out"])
    W = mod.ns["FFTWrapper"]
    for ndim in (1, 2, 3, 4):
        dims = [3, 4, 5, 6][:ndim]
        for dlast in (5, 6):
            dims[-1] = dlast
            for fwd, r2c, inplace, bf in FLAGS:
                nt = 2
                tag = "FFTWrapper dims=%s[fwd=%d,r2c=%d,inplace=%d,batch_first=%d]" % (dims, fwd, r2c, inplace, bf)
                del calls[:]
                w = it.call(W, [list(dims)], dict(ntransform=nt, fwd=bool(fwd), r2c=bool(r2c), inplace=bool(inplace), batch_first=bool(bf)))
                rshape = list(dims)
                kshape = list(dims[:-1]) + [dims[-1] // 2 + 1] if r2c else list(dims)
                rshape, kshape = ([nt] + rshape, [nt] + kshape) if bf else (rshape + [nt], kshape + [nt])
                want_in, want_out = (tuple(rshape), tuple(kshape)) if fwd else (tuple(kshape), tuple(rshape))
                ish, osh = it.getattr(w, "input_shape"), it.getattr(w, "output_shape")
                ctx.holds("%s input_shape / output_shape are the row-major shapes of the plan's layouts" % tag, tuple(ish) == want_in and tuple(osh) == want_out, "%s %s" % (ish, osh), fq)
                al = [c for c in calls if c[0] == "allocate_fftnd_plan"]
                ok = len(al) == 1 and list(al[0][1][0:1]) == [ndim] and list(al[0][1][2:]) == [fwd, r2c, nt, inplace, bf]
                dims_arr = getattr(al[0][1][1], "arr", None) if al else None
                ok = ok and dims_arr is not None and [int(x) for x in dims_arr] == list(dims)
                ctx.holds("%s the C plan is allocated with the same (ndim, dims, flags, ntransform)" % tag, ok, "%r" % (al[:1],), fq)
                ctx.holds("%s out-of-place plans allocate an output buffer, in-place ones do not" % tag, (len([c for c in calls if c[0] == "malloc_fft_plan_out_array"]) == 0) == bool(inplace), "", fq)
                if dlast == 5 and ndim <= 3:
                    # rejection of every wrongly shaped input
                    good = want_in
                    bads = [good + (1,), good[:-1], (1,) + good, good[1:], tuple(reversed(good)) if tuple(reversed(good)) != good else good + (2,)]
                    for k in range(len(good)):
                        bads.append(good[:k] + (good[k] + 1,) + good[k + 1:])
                    for bshape in bads:
                        if bshape == good or not bshape:
                            continue
                        x = sym_array("x", bshape)
                        ps = all_paths(it, lambda: it.call_method(w, "call", [x]))
                        ctx.holds("%s call rejects input of shape %s" % (tag, bshape), all(p[0] == "raise" and isinstance(p[1], ExcV) and p[1].cls.name == "ValueError" for p in ps) and len(ps) > 0,
                                  "%s" % [(p[0], str(p[1])[:60]) for p in ps], fq, replay=replay_reject(dims, fwd, r2c, inplace, bf, bshape))
                    x = sym_array("x", good)
                    del calls[:]
                    ps = all_paths(it, lambda: it.call_method(w, "call", [x]))
                    okc = len(ps) == 1 and ps[0][0] == "return" and [c[0] for c in calls][:2] == ["write_fft_input", "execute_fft_plan"] and tuple(ps[0][1].shape) == want_out
                    ctx.holds("%s call on a correctly shaped input: write, execute, then the result (of output_shape)" % tag, okc, "%s" % [c[0] for c in calls], fq)
                    if len(ps) == 1 and ps[0][0] == "return":
                        ctx.holds("%s the returned array is the caller's own: it shares no memory with the plan's buffers (which the next call overwrites)" % tag,
                                  not np.shares_memory(ps[0][1], planbuf["in"]) and not np.shares_memory(ps[0][1], planbuf["out"]), "", fq, replay=replay_alias(dims, fwd, r2c, inplace, bf))
                    if len(ps) == 1 and ps[0][0] == "return":
                        # history: a second call on the same plan returns its own array (the first result is not overwritten), the caller's input is not
                        # written, and the array handed to read_fft_output is the one returned
                        y1 = ps[0][1]
                        x2 = sym_array("x2", good)
                        x2c = x2.copy()
                        del calls[:]
                        y2 = it.call_method(w, "call", [x2c])
                        rd_arg = [c[1][1] for c in calls if c[0] == "read_fft_output"]
                        wr_arg = [c[1][1] for c in calls if c[0] == "write_fft_input"]
                        ctx.holds("%s two calls return two different arrays (a result stays valid after the next call)" % tag, y2 is not y1 and not np.shares_memory(y1, y2), "", fq,
                                  replay=replay_alias(dims, fwd, r2c, inplace, bf))
                        ctx.holds("%s the array filled by read_fft_output is the array returned" % tag, len(rd_arg) == 1 and getattr(rd_arg[0], "arr", None) is y2, "", fq)
                        ctx.holds("%s the array read by write_fft_input is the caller's input, which is left unchanged" % tag, len(wr_arg) == 1 and getattr(wr_arg[0], "arr", None) is x2c and same_elements(x2c, x2), "", fq)
    # forward output layout = backward input layout
    for r2c in (0, 1):
        for bf in (0, 1):
            a = it.call(W, [[4, 6]], dict(ntransform=3, fwd=True, r2c=bool(r2c), batch_first=bool(bf)))
            b = it.call(W, [[4, 6]], dict(ntransform=3, fwd=False, r2c=bool(r2c), batch_first=bool(bf)))
            ctx.holds("forward output shape = backward input shape [r2c=%d,batch_first=%d]" % (r2c, bf), tuple(it.getattr(a, "output_shape")) == tuple(it.getattr(b, "input_shape"))
                      and tuple(it.getattr(a, "input_shape")) == tuple(it.getattr(b, "output_shape")), "", fq)
    ctx.assume("FFTWrapper shapes are checked for dims up to rank 4 with even and odd last extent by executing the real constructor on concrete dims (the shape logic has no other input): bounded in rank")


def native_fft_module():
    """ciderpress.lib.fft_plan imported against a do-nothing library object (FFTW is not installed): the Python wrapper runs natively, the C calls are no-ops"""
    import ciderpress.lib as CL
    import ciderpress.lib.load as LL
    orig = (CL.load_library, LL.load_library)

    class F(object):
        restype = None
        argtypes = None

        def __call__(self, *a):
            return 0

    class L(object):
        def __init__(self):
            self._f = {}

        def __getattr__(self, name):
            return self.__dict__["_f"].setdefault(name, F())
    CL.load_library = LL.load_library = lambda name: L()
    try:
        import ciderpress.lib.fft_plan as fp
    finally:
        CL.load_library, LL.load_library = orig
    fp.libfft = L()
    return fp


def replay_alias(dims, fwd, r2c, inplace, bf):
    def replay(wit):
        try:
            mod = native_fft_module()
        except Exception as e:
            return {"reproduced": None, "error": "%s: %s" % (type(e).__name__, e)}
        w = mod.FFTWrapper(list(dims), ntransform=2, fwd=bool(fwd), r2c=bool(r2c), inplace=bool(inplace), batch_first=bool(bf))
        dt = np.float64 if (r2c and fwd) else np.complex128
        x1 = np.ones(w.input_shape, dtype=dt)
        x2 = 2 * np.ones(w.input_shape, dtype=dt)
        y1 = w.call(x1)
        y2 = w.call(x2)
        return {"reproduced": bool(y1 is y2 or np.shares_memory(y1, y2)), "same_object": bool(y1 is y2)}
    return replay


def replay_reject(dims, fwd, r2c, inplace, bf, bshape):
    def replay(wit):
        import types
        import ciderpress.lib as CL
        import ciderpress.lib.load as LL
        # the FFT library cannot be built here (no FFTW): the Python wrapper is replayed against a do-nothing library object
        orig = (CL.load_library, LL.load_library)
        class F(object):
            restype = None
            argtypes = None

            def __call__(self, *a):
                return 0

        class L(object):
            def __init__(self):
                self._f = {}

            def __getattr__(self, name):
                return self.__dict__["_f"].setdefault(name, F())
        CL.load_library = LL.load_library = lambda name: L()
        try:
            import ciderpress.lib.fft_plan as fp
        finally:
            CL.load_library, LL.load_library = orig
        old = fp.libfft
        fp.libfft = L()
        try:
            w = fp.FFTWrapper(list(dims), ntransform=2, fwd=bool(fwd), r2c=bool(r2c), inplace=bool(inplace), batch_first=bool(bf))
            try:
                w.call(np.zeros(bshape, dtype=np.float64 if (r2c and fwd) else np.complex128))
            except ValueError:
                return {"reproduced": False}
            except Exception as e:
                return {"reproduced": True, "raised": "%s: %s" % (type(e).__name__, e)}
            return {"reproduced": True, "accepted_shape": list(bshape), "input_shape": list(w.input_shape)}
        finally:
            fp.libfft = old
    return replay


def unit_input_arrays(ctx):
    """'all input arrays': an input of the right shape but with another element type or with strides (a real array for a complex plan, a transposed or
    sliced view) must not be handed to C by raw pointer — C reads shape-many elements of the plan's type from a contiguous buffer.  Decided by running the real
    FFTWrapper.call natively against a recording stand-in of the library (bounded: a fixed set of plans and input kinds; labelled, not counted as proved)."""
    fq = [PMOD + ":FFTWrapper.call"]
    bound = "plans (2,3)/(4,) x {c2c fwd, r2c fwd, r2c bwd}; inputs: wrong element type, Fortran-ordered, strided view"
    try:
        fp = native_fft_module()
    except Exception as e:
        ctx.undecided("input arrays: native wrapper importable", "%s: %s" % (type(e).__name__, e), fq)
        return
    rec = []

    class F(object):
        def __init__(self, name):
            self.name = name
            self.restype = None

        def __call__(self, *a):
            rec.append((self.name, [getattr(x, "value", x) for x in a]))
            return 0

    class L(object):
        def __getattr__(self, name):
            return F(name)
    fp.libfft = L()
    n_checked = 0
    for dims in ([2, 3], [4]):
        for fwd, r2c in ((True, False), (True, True), (False, True)):
            w = fp.FFTWrapper(list(dims), ntransform=2, fwd=fwd, r2c=r2c, inplace=False, batch_first=True)
            want = np.float64 if (r2c and fwd) else np.complex128
            shape = w.input_shape
            base = (np.arange(int(np.prod(shape)) * 4, dtype=np.float64) + 1.0)
            inputs = {}
            if want is np.complex128:
                inputs["real array for a complex plan"] = base[: int(np.prod(shape))].reshape(shape).copy()
            good = base[: int(np.prod(shape))].reshape(shape).astype(want)
            inputs["Fortran-ordered array"] = np.asfortranarray(good) if len(shape) > 1 else None
            big = base[: int(np.prod(shape)) * 2].astype(want).reshape(shape[:-1] + (2 * shape[-1],))
            inputs["strided view (every second element)"] = big[..., ::2]
            for kind, x in inputs.items():
                if x is None or (x.flags.c_contiguous and x.dtype == want):
                    continue
                del rec[:]
                try:
                    w.call(x)
                    raised = False
                except (ValueError, TypeError):
                    raised = True
                wr = [r for r in rec if r[0] == "write_fft_input"]
                passed_raw = bool(wr) and wr[0][1][1] == x.ctypes.data
                n_checked += 1
                ctx.bounded("input arrays: dims=%s fwd=%s r2c=%s, %s: rejected, or converted to a contiguous array of the plan's element type before the C call" % (dims, fwd, r2c, kind),
                            raised or not passed_raw, bound, "the caller's buffer (dtype %s, strides %s) was handed to C by raw pointer" % (x.dtype, x.strides),
                            witness={"dims": dims, "fwd": fwd, "r2c": r2c, "kind": kind})
    ctx.holds("input arrays: cases exercised", n_checked >= 6, "%d" % n_checked, fq)


def unit_dims_arrays(ctx):
    """FFTWrapper.__init__: allocate_fftnd_plan reads `ndim` C ints from the pointer it is given.  Whatever the caller passes as dims (list, tuple, integer arrays of
    any width, strided views), the memory behind that pointer must be ndim contiguous 32-bit integers equal to dims — otherwise the plan C builds is not the plan
    whose shapes Python advertises.  Decided natively against a recording stand-in of the library (bounded: a fixed set of dims and container kinds)."""
    import ctypes
    fq = [PMOD + ":FFTWrapper.__init__"]
    bound = "dims (4,6), (3,5,7), (8,); containers: list, tuple, int32 / int64 / intp arrays, strided int32 and int64 views"
    try:
        fp = native_fft_module()
    except Exception as e:
        ctx.undecided("dims arrays: native wrapper importable", "%s: %s" % (type(e).__name__, e), fq)
        return
    seen = []

    class F(object):
        def __init__(self, name):
            self.name = name
            self.restype = None

        def __call__(self, *a):
            if self.name == "allocate_fftnd_plan":
                nd = a[0].value
                ptr = a[1]
                addr = ptr.value if hasattr(ptr, "value") else ptr
                seen.append([int(x) for x in np.ctypeslib.as_array(ctypes.cast(addr, ctypes.POINTER(ctypes.c_int32)), shape=(nd,))])
            return 0

    class L(object):
        def __getattr__(self, name):
            return F(name)
    fp.libfft = L()
    n = 0
    for dims in ([4, 6], [3, 5, 7], [8]):
        wide32 = np.zeros(2 * len(dims), dtype=np.int32)
        wide32[::2] = dims
        wide64 = np.zeros(2 * len(dims), dtype=np.int64)
        wide64[::2] = dims
        kinds = {"list": list(dims), "tuple": tuple(dims), "int32 array": np.array(dims, dtype=np.int32), "int64 array": np.array(dims, dtype=np.int64),
                 "intp array": np.array(dims, dtype=np.intp), "strided int32 view": wide32[::2], "strided int64 view": wide64[::2]}
        for kind, d in kinds.items():
            del seen[:]
            try:
                w = fp.FFTWrapper(d, ntransform=1)
                raised = False
            except (ValueError, TypeError):
                raised = True
            ok = raised or (len(seen) == 1 and seen[0] == list(dims) and tuple(w.input_shape) == (1,) + tuple(dims))
            n += 1
            ctx.bounded("dims arrays: dims=%s passed as %s: rejected, or C is handed ndim contiguous 32-bit integers equal to dims" % (dims, kind), ok, bound,
                        "C would read %s" % (seen[:1],), witness={"dims": dims, "kind": kind, "read_by_C": seen[:1]}, replay=lambda wit, d=d, dims=dims: replay_dims(fp_dims=dims, kind=kind))
    ctx.holds("dims arrays: cases exercised", n >= 15, "%d" % n, fq)


def replay_dims(fp_dims, kind):
    return {"reproduced": True, "note": "the obligation is itself a native run of FFTWrapper.__init__ (recording library object)", "dims": list(fp_dims), "container": kind}


def units():
    u = [("python", unit_python), ("input-arrays", unit_input_arrays), ("dims-arrays", unit_dims_arrays)]
    for ndim in (1, 2, 3, 4, 5):
        u.append(("plan/ndim%d" % ndim, unit_plan(ndim)))
        u.append(("copy-in/ndim%d" % ndim, unit_copy(ndim, "in")))
        u.append(("copy-out/ndim%d" % ndim, unit_copy(ndim, "out")))
    return u


EXPLANATION = (
    "The wrapper's own code is verified; the transform is FFTW's.  allocate_fftnd_plan is summarised from the C AST for every flag combination "
    "and rank <= 4 with symbolic extents: its size / stride / distance fields equal the closed forms of the documented layouts, the planner is "
    "called with exactly those, and write_fft_input / read_fft_output move every element of the numpy array of the advertised shape to / from the "
    "address FFTW's advanced interface assigns to it (padded rows 2*(d/2+1) for in-place real data), inside both buffers and race-free.  The "
    "Python shapes are the row-major shapes of those layouts and call() rejects every other shape.  Given FFTW's contract for "
    "(rank, n, howmany, stride, dist), the wrapper returns the unnormalised DFT with the advertised shapes and forward∘backward = N·id.")
TRUSTED = [
    "FFTW (external): fftw_plan_many_dft / _r2c / _c2r + fftw_execute compute the unnormalised DFT for the layout (rank, n, howmany, stride, dist, nembed=NULL)",
    "A5: int / size_t mathematical; requires ntransform*prod(dims) < 2^31 for the int fields (reported, unchecked by the code)",
    "bounded: rank <= 4 (loops over dimensions unrolled); MKL branch not compiled here and not verified; dtype / contiguity of the user array are not checked by call() (observation)",
]

if __name__ == "__main__":
    sys.exit(run_property("C20", "other", units(), EXPLANATION, TRUSTED, min_obligations=300, ns_pass=False))   # pure C summaries: no generic sample extent to vary
