"""NLDF plan under contract with its C callees replaced by their contracts.

  plans:_get_ovlp_fit_interpolation_coefficients(plan, arg_g, i, local)  (calls cider_coefs_gto_* in C)
        assumed contract here, proved for the C code by the C engine (contracts/c02c.py):
        returns (p, dp) with p[g, q] = P<feat_id>_q(arg_g[g]) and dp[g, q] = d p[g, q] / d arg_g[g]   (layout per coef_order)
"""
import numpy as np
from fractions import Fraction as Q
from pyvc import terms as tm
from pyvc.interp import Obj, Builtin, Unsupported
from contracts.evalharness import ufn

PMOD = "ciderpress.dft.plans"
SMOD = "ciderpress.dft.settings"


def install_coef_contract(it, nalpha):
    def coefs(interp, f, args, kwargs):
        plan, arg_g = args[0], args[1]
        i = kwargs.get("i", args[2] if len(args) > 2 else -1)
        spec = "se" if i == -1 else plan.fields["nldf_settings"].fields.get("feat_specs", ["se"])[i]
        extra = []
        if spec == "se_erf_rinv":
            extra = [plan.fields["nldf_settings"].fields["feat_params"][i][-1]]
        a = np.asarray(arg_g, dtype=object).reshape(-1)
        order = plan.fields["coef_order"]
        shape = (a.size, nalpha) if order == "gq" else (nalpha, a.size)
        vbuf = kwargs.get("vbuf", args[4] if len(args) > 4 else None)
        dbuf = kwargs.get("dbuf", args[5] if len(args) > 5 else None)

        def out(buf):
            # plan.empty_coefs(ngrids, buf=vbuf) = np.ndarray(shape, buffer=vbuf): the result aliases the caller's buffer when one is given
            if buf is None:
                return np.empty(shape, dtype=object)
            b = np.asarray(buf)
            if b.dtype != object or not b.flags.c_contiguous or b.size < shape[0] * shape[1]:
                raise Unsupported("coefficient buffer model: need a C-contiguous object array at least as large as the result")
            return b.reshape(-1)[: shape[0] * shape[1]].reshape(shape)
        p = out(vbuf)
        dp = out(dbuf)
        for g in range(a.size):
            for q in range(nalpha):
                idx = (g, q) if order == "gq" else (q, g)
                p[idx] = ufn("P_%s_%d" % (spec, q), [a[g]] + extra)
                dp[idx] = ufn("D0_P_%s_%d" % (spec, q), [a[g]] + extra)
        return p, dp
    it.overrides[PMOD + ":_get_ovlp_fit_interpolation_coefficients"] = coefs


def make_settings(it, version, level, rho_mult, hyps, prefix="th"):
    m = it.load_module(SMOD)
    names = ["a0", "grad_mul", "tau_mul"] if level == "MGGA" else ["a0", "grad_mul"]

    def theta(pre):
        vs = [tm.var("%s_%s" % (pre, n)) for n in names]
        hyps.append(tm.mk_lt(tm.ZERO, vs[0]))
        hyps.extend(tm.mk_lt(tm.ZERO, v) for v in vs[1:])
        return vs
    th = theta(prefix)
    it.hyps = list(hyps)
    l0 = ["se_ap", "se"]
    l1 = ["se_grad", "se_rvec"]
    dots = [(0, 0), (0, 1), (-1, 0), (-1, -1)]
    if version == "i":
        return it.call(m.ns["NLDFSettingsVI"], [level, th, rho_mult, l0, l1, dots], {})
    fps = [theta("f0"), theta("f1")]
    it.hyps = list(hyps)
    if version == "j":
        return it.call(m.ns["NLDFSettingsVJ"], [level, th, rho_mult, ["se", "se_ar2"], fps], {})
    if version == "k":
        return it.call(m.ns["NLDFSettingsVK"], [level, th, rho_mult, fps, "exponential"], {})
    return it.call(m.ns["NLDFSettingsVIJ"], [level, th, rho_mult, l0, l1, dots, ["se", "se_ar2"], fps], {})


def make_plan(it, settings, nspin, nalpha=2, coef_order="gq", hyps=None, rhocut=None, kind="NLDFGaussianPlan", **kw):
    pm = it.load_module(PMOD)
    install_coef_contract(it, nalpha)
    alpha0, lambd = tm.var("alpha0"), tm.var("lambd")
    if hyps is not None:
        hyps += [tm.mk_lt(tm.ZERO, alpha0), tm.mk_lt(tm.ONE, lambd)]
        it.hyps = list(hyps)
    args = dict(coef_order=coef_order, raise_large_expnt_error=False)
    if rhocut is not None:
        args["rhocut"] = rhocut
    args.update(kw)
    return it.call(pm.ns[kind], [settings, nspin, alpha0, lambd, nalpha], args)
