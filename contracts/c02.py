"""C02 — fast nonlocal feature evaluation reproduces the documented feature definitions (the part contracts can decide).

Decided here (everything about the *numerical* agreement of the auxiliary expansion with direct quadrature — truncation error, its refinement
behaviour, fast-vs-slow path agreement — is an approximation statement and is said to be out of reach in the evidence):

  identifier tables   VJ_ID_MAP (Python) = the CIDER_FEAT_* constants the C switch of cider_coefs_gto_* dispatches on (read from the C source text),
                      and every id the plan can produce reaches a case; VI_ID_MAP is total on the ids generate_atc_integrals_vi accepts
  interpolation coefficients (cider_coefs_gto_gq / _qg, engine C, value mode, all sizes):   p(g, a) = A^p M_k(a_g + alpha_a) for the documented kernel of
                      the spec the id stands for (Gaussian moment table, specs/nldf_kernels.py), dp = d p / d a_g;   vk1: p = exp(-3 a / (2 alpha)), dp its derivative;
                      spline evaluation: p = the cubic in the fractional index with the tabulated coefficients, dp its derivative, read inside the table
                      after cider_ind_clip;   cider_ind_etb / _zexp: di = log_lambd(a / alpha0) resp. log_lambd(a / alpha0 + 1), derivi its derivative
  NLDFSplinePlan._run_setup   the spline table of feature i is built from feature i's own coefficients (spec and parameters), the last from 'se'
  l+1 interpolation steps and SDMX contractions (shared with C05 / C10):  the in-place l+1 step clears its scratch column; the SDMX l=1 contraction
                      reads, for contraction c of shell sh and component m, the AO row ao_loc[sh] + c (2l+1) + m
  eval_rho_vj_ / eval_rho_vi_   the documented contractions (sum over control points of p * f; dot products of the l=1 vectors and the gradient)
"""
import itertools
import os
import re
import sys

sys.path.insert(0, os.path.dirname(os.path.dirname(os.path.abspath(__file__))))

import warnings
import numpy as np
from fractions import Fraction as Q

warnings.filterwarnings("ignore")

from pyvc import terms as tm
from pyvc import vc, intarith
from pyvc.nf import NF, NFError
from pyvc.framework import run_property
from pyvc.interp import Interp, Obj, ClassV, Builtin, PyRaise, Unsupported, ExcV
from contracts.common import *
from contracts.evalharness import ufn
from cvc import cparse, oblig
from cvc.csym import CSym, Arr, Ptr, CUnsupported
from contracts.c10 import mk_value, nonneg_hyps
from specs import nldf_kernels as SPEC

PMOD = "ciderpress.dft.plans"
CC = "mod_cider/cider_coefs.c"
FQ = lambda *fs: ["lib/%s:%s" % (CC, f) for f in fs]
I = lambda n: tm.var(n, "I")
rd = lambda arr, idx: tm.mk_fn("rd:" + arr, tm.lift(idx))


def c_defines():
    src = open(os.path.join(cparse.LIB, CC)).read()
    return {m.group(1): int(m.group(2)) for m in re.finditer(r"#define\s+CIDER_FEAT_(\w+)\s+(\d+)", src)}


DEFINE_OF_SPEC = {"se": "R0_GAUSSIAN", "se_ar2": "R2_GAUSSIAN", "se_a2r4": "R4_GAUSSIAN", "se_erf_rinv": "ERF_GAUSSIAN"}


def unit_ids(ctx):
    it = ctx.interp
    pm = it.load_module(PMOD)
    sm = it.load_module("ciderpress.dft.settings")
    fq = [PMOD + ":VJ_ID_MAP", PMOD + ":VI_ID_MAP"] + FQ("cider_coefs_gto_gq")
    vj, vi = pm.ns["VJ_ID_MAP"], pm.ns["VI_ID_MAP"]
    defs = c_defines()
    for spec, dname in DEFINE_OF_SPEC.items():
        ctx.holds("VJ_ID_MAP[%s] = CIDER_FEAT_%s of cider_coefs.c" % (spec, dname), spec in vj and dname in defs and int(vj[spec]) == defs[dname], "%s vs %s" % (vj.get(spec), defs.get(dname)), fq)
    allowed_j = [str(s) for s in sm.ns["ALLOWED_J_SPECS"]]
    ctx.holds("every allowed version-j spec has an id and a C constant", sorted(allowed_j) == sorted(vj) == sorted(DEFINE_OF_SPEC), "%s / %s" % (allowed_j, sorted(vj)), fq)
    ctx.holds("VJ ids are distinct", len(set(int(v) for v in vj.values())) == len(vj), "", fq)
    allowed_i = [str(s) for s in sm.ns["ALLOWED_I_SPECS_L0"]] + [str(s) for s in sm.ns["ALLOWED_I_SPECS_L1"]]
    ctx.holds("every allowed version-i spec has a distinct id in VI_ID_MAP", sorted(allowed_i) == sorted(vi) and len(set(int(v) for v in vi.values())) == len(vi), "%s / %s" % (allowed_i, sorted(vi)), fq)
    # ids accepted by generate_atc_integrals_vi: the chain `if (featid == k)` of convolutions.c
    src = open(os.path.join(cparse.LIB, "mod_cider/convolutions.c")).read()
    body = src[src.index("void generate_atc_integrals_vi"):]
    body = body[:body.index("\nvoid ", 10)]
    accepted = sorted(int(x) for x in re.findall(r"featid == (\d+)", body))
    ctx.holds("every VI id is accepted by generate_atc_integrals_vi (featid == k chain)", all(int(v) in accepted for v in vi.values()), "ids %s accepted %s" % (sorted(int(v) for v in vi.values()), accepted), fq + ["lib/mod_cider/convolutions.c:generate_atc_integrals_vi"])


def run_coefs(fn, featid=None):
    tu = cparse.load(CC)
    s = CSym([tu])
    args = {p: mk_value(tu, ty, p) for p, ty in tu.params(fn)}
    if featid is not None:
        args["featid"] = featid
    hy = nonneg_hyps(args)
    s.hyps = list(hy)
    s.run(fn, args)
    return s, args, hy


def loop_var_by_bound(ev, bound):
    """The loop variable of the event whose (exclusive) upper bound is the given term: loops are identified by what they range over, not by the
    name the source gives their counter."""
    nfc = NF()
    for qv, lo, hi, st in ev.qvars:
        try:
            if nfc.equal(tm.lift(hi), tm.lift(bound)) and nfc.equal(tm.lift(lo), tm.ZERO):
                return qv
        except NFError:
            pass
    return None


def final_writes(s, arr):
    """Value finally stored at the element written by the (single) '=' event of `arr`, with later '+=' / '-=' events at the same index folded in."""
    evs = [e for e in s.events if e.kind == "w" and e.arr.name == arr]
    if not evs:
        return None, None
    base = evs[0]
    val = base.val if base.op == "=" else None
    nfc = NF()
    for e in evs[1:]:
        if not nfc.equal(e.idx, base.idx):
            return None, None
        if e.op == "=":
            val = e.val
        elif e.op == "+=":
            val = val + e.val
        elif e.op == "-=":
            val = val - e.val
    return base, val


def unit_gto(order):
    def run(ctx):
        fn = "cider_coefs_gto_" + order
        fq = FQ(fn)
        defs = c_defines()
        pname, dname = ("p_ga", "dp_ga") if order == "gq" else ("p_ag", "dp_ag")
        for spec, dn in DEFINE_OF_SPEC.items():
            fid = defs[dn]
            try:
                s, args, hy = run_coefs(fn, fid)
            except CUnsupported as e:
                ctx.undecided("%s[%s] summarised" % (fn, spec), str(e), fq)
                continue
            ev, val = final_writes(s, pname)
            dev, dval = final_writes(s, dname)
            ctx.holds("%s[%s] writes p and dp once per (grid point, control point)" % (fn, spec), ev is not None and dev is not None, "", fq)
            if ev is None or dev is None:
                continue
            ng, na = args["ngrids"], args["nalpha"]
            gv, av = loop_var_by_bound(ev, ng), loop_var_by_bound(ev, na)
            if gv is None or av is None:
                ctx.undecided("%s[%s] loop structure" % (fn, spec), "no loop over [0, ngrids) x [0, nalpha) around the store", fq)
                continue
            want_idx = gv * na + av if order == "gq" else av * ng + gv
            H = hy + list(ev.guards)
            r_, _, be = intarith.check_sat_int(H + [tm.mk_not(tm.mk_eq(ev.idx, want_idx))], 5.0)
            ctx._rec("obligation", "%s[%s] layout: element (g, a) of the coefficient array" % (fn, spec), vc.Verdict("discharged" if r_ == "unsat" else "refuted" if r_ == "sat" else "undecided", be), fq)
            aG, al = rd("exp_g", gv), rd("alphas", av)
            Hr = H + [tm.mk_lt(tm.ZERO, aG), tm.mk_lt(tm.ZERO, al)]
            if spec in SPEC.VJ_KERNELS:
                b = aG + al
                want = tm.mk_add(*[c * aG ** p * SPEC.moment(tm, b, k) for c, p, k in SPEC.VJ_KERNELS[spec]])
                ctx.equal("%s[%s] p(g, a) = integral of the documented kernel times exp(-alpha r^2)  (Gaussian moments)" % (fn, spec), Hr, val, want, fq, replay=replay_gto(order, spec))
                ctx.canary("%s[%s] canary" % (fn, spec), Hr, val, 2 * want)
            else:
                ctx.assume("spec %s has no documented closed form: only dp = dp/da is checked for it" % spec)
            ctx.equal("%s[%s] dp(g, a) = d p / d a_g" % (fn, spec), Hr + ([tm.mk_lt(tm.ZERO, rd("extra_args", 0))] if spec == "se_erf_rinv" else []), dval, tm.diff(tm.lift(val), aG), fq, replay=replay_gto(order, spec))
        # an id outside the table does nothing (default branch)
        try:
            s, args, hy = run_coefs(fn, 99)
            ctx.holds("%s[unknown id] writes nothing" % fn, not [e for e in s.events if e.kind == "w"], "", fq)
        except CUnsupported as e:
            ctx.undecided("%s[unknown id]" % fn, str(e), fq)
    return run


def replay_gto(order, spec):
    def replay(wit):
        import ctypes
        from pyvc import native
        lib = ctypes.CDLL(native.build_libs() + "/libmcider.so")
        rng = np.random.RandomState(0)
        ng, na = 5, 4
        a, al = rng.rand(ng) + 0.3, rng.rand(na) + 0.2
        fid = c_defines()[DEFINE_OF_SPEC[spec]]
        shape = (ng, na) if order == "gq" else (na, ng)

        def call(av):
            p, dp = np.zeros(shape), np.zeros(shape)
            ex = np.array([0.7])
            getattr(lib, "cider_coefs_gto_" + order)(p.ctypes.data_as(ctypes.c_void_p), dp.ctypes.data_as(ctypes.c_void_p), av.ctypes.data_as(ctypes.c_void_p),
                                                    al.ctypes.data_as(ctypes.c_void_p), ctypes.c_int(ng), ctypes.c_int(na), ctypes.c_int(fid), ex.ctypes.data_as(ctypes.c_void_p))
            return p, dp
        p, dp = call(a)
        out = {}
        if spec in SPEC.VJ_KERNELS:
            from math import pi
            b = a[:, None] + al[None, :]
            ref = sum(c * a[:, None] ** pw * (pi / b) ** 1.5 * SPEC.double_factorial_odd(k) / (2 * b) ** k for c, pw, k in SPEC.VJ_KERNELS[spec])
            ref = ref if order == "gq" else ref.T
            out["max_abs_err_value"] = float(np.max(np.abs(p - ref)))
        h = 1e-6
        fd = (call(a + h)[0] - call(a - h)[0]) / (2 * h)
        out["max_abs_err_derivative"] = float(np.max(np.abs(fd - dp)))
        out["reproduced"] = bool(out.get("max_abs_err_value", 0) > 1e-10 or out["max_abs_err_derivative"] > 1e-6)
        return out
    return replay


def unit_gto_homogeneity(order):
    """Uniform scaling (C03): under n -> n_lambda every exponent scales as lambda^2, and the interpolation coefficient of every version-j kernel must scale as
    lambda^-3, i.e. p(t a_g, t alpha) = t^(-3/2) p(a_g, alpha) — also for the spec without a documented closed form (se_erf_rinv, declared scaling power 0)."""
    def run(ctx):
        fn = "cider_coefs_gto_" + order
        fq = FQ(fn)
        defs = c_defines()
        pname = "p_ga" if order == "gq" else "p_ag"
        t = tm.var("tscale")
        for spec, dn in DEFINE_OF_SPEC.items():
            try:
                s, args, hy = run_coefs(fn, defs[dn])
            except CUnsupported as e:
                ctx.undecided("%s[%s] summarised" % (fn, spec), str(e), fq)
                continue
            ev, val = final_writes(s, pname)
            if ev is None:
                ctx.holds("%s[%s] writes p" % (fn, spec), False, "", fq)
                continue
            gv, av = loop_var_by_bound(ev, args["ngrids"]), loop_var_by_bound(ev, args["nalpha"])
            if gv is None or av is None:
                ctx.undecided("%s[%s] loop structure" % (fn, spec), "no loop over [0, ngrids) x [0, nalpha) around the store", fq)
                continue
            aG, al = rd("exp_g", gv), rd("alphas", av)
            H = hy + list(ev.guards) + [tm.mk_lt(tm.ZERO, aG), tm.mk_lt(tm.ZERO, al), tm.mk_lt(tm.ZERO, t)] + ([tm.mk_lt(tm.ZERO, rd("extra_args", 0))] if spec == "se_erf_rinv" else [])
            scaled = tm.substitute(tm.lift(val), {aG: t * aG, al: t * al})
            ctx.equal("%s[%s] p(t a, t alpha) = t^(-3/2) p(a, alpha)  (declared uniform-scaling power of the feature)" % (fn, spec), H, scaled, t ** Q(-3, 2) * tm.lift(val), fq,
                      replay=replay_gto_homogeneity(order, spec))
        ctx.canary("%s homogeneity canary" % fn, H, scaled, t ** Q(-1, 2) * tm.lift(val))
    return run


def replay_gto_homogeneity(order, spec):
    def replay(wit):
        import ctypes
        from pyvc import native
        lib = ctypes.CDLL(native.build_libs() + "/libmcider.so")
        rng = np.random.RandomState(1)
        ng, na = 4, 3
        a, al = rng.rand(ng) + 0.3, rng.rand(na) + 0.2
        fid = c_defines()[DEFINE_OF_SPEC[spec]]
        shape = (ng, na) if order == "gq" else (na, ng)

        def call(av, alv):
            p, dp = np.zeros(shape), np.zeros(shape)
            ex = np.array([0.7])
            getattr(lib, "cider_coefs_gto_" + order)(p.ctypes.data_as(ctypes.c_void_p), dp.ctypes.data_as(ctypes.c_void_p), np.ascontiguousarray(av).ctypes.data_as(ctypes.c_void_p),
                                                    np.ascontiguousarray(alv).ctypes.data_as(ctypes.c_void_p), ctypes.c_int(ng), ctypes.c_int(na), ctypes.c_int(fid), ex.ctypes.data_as(ctypes.c_void_p))
            return p
        tt = 2.7
        dev = float(np.max(np.abs(call(tt * a, tt * al) / (tt ** -1.5 * call(a, al)) - 1)))
        return {"reproduced": bool(dev > 1e-10), "max_relative_deviation_from_degree_minus_3_2": dev, "t": tt}
    return replay


def unit_other_coefs(ctx):
    fq = FQ("cider_coefs_vk1_gq", "cider_coefs_vk1_qg", "cider_ind_etb", "cider_ind_zexp", "cider_ind_clip", "cider_coefs_spline_gq", "cider_coefs_spline_qg")
    # vk1
    for order, pn, dn in (("gq", "p_ga", "dp_ga"), ("qg", "p_ag", "dp_ag")):
        fn = "cider_coefs_vk1_" + order
        try:
            s, args, hy = run_coefs(fn)
        except CUnsupported as e:
            ctx.undecided("%s summarised" % fn, str(e), fq)
            continue
        ev, val = final_writes(s, pn)
        dev, dval = final_writes(s, dn)
        if ev is None:
            ctx.holds("%s writes p" % fn, False, "", fq)
            continue
        gv, av = loop_var_by_bound(ev, args["ngrids"]), loop_var_by_bound(ev, args["nalpha"])
        if gv is None or av is None:
            ctx.undecided("%s loop structure" % fn, "no loop over [0, ngrids) x [0, nalpha) around the store", fq)
            continue
        aG, al = rd("exp_g", gv), rd("alphas", av)
        Hr = hy + list(ev.guards) + [tm.mk_lt(tm.ZERO, aG), tm.mk_lt(tm.ZERO, al)]
        ctx.equal("%s p(g, a) = exp(-3 a_g / (2 alpha_a))  (version-k damping)" % fn, Hr, val, tm.mk_fn("exp", Q(-3, 2) * aG / al), fq)
        ctx.equal("%s dp = d p / d a_g" % fn, Hr, dval, tm.diff(tm.lift(val), aG), fq)
    # index maps
    for fn, inner in (("cider_ind_etb", lambda a, a0: a / a0), ("cider_ind_zexp", lambda a, a0: a / a0 + 1)):
        try:
            s, args, hy = run_coefs(fn)
        except CUnsupported as e:
            ctx.undecided("%s summarised" % fn, str(e), fq)
            continue
        ev, val = final_writes(s, "di_g")
        dev, dval = final_writes(s, "derivi_g")
        if ev is None or dev is None:
            ctx.holds("%s writes di and derivi" % fn, False, "", fq)
            continue
        gv = ev.qvars[0][0]
        aG = rd("exp_g", gv)
        a0, lam = args["alpha0"], args["lambd"]
        Hr = hy + list(ev.guards) + [tm.mk_lt(tm.ZERO, aG), tm.mk_lt(tm.ZERO, a0), tm.mk_lt(tm.ONE, lam)]
        want = tm.mk_fn("log", inner(aG, a0)) / tm.mk_fn("log", lam)
        ctx.equal("%s di = log(%s) / log(lambd)" % (fn, "a/alpha0" if "etb" in fn else "a/alpha0 + 1"), Hr, val, want, fq)
        ctx.equal("%s derivi = d di / d a" % fn, Hr, dval, tm.diff(want, aG), fq)
    # spline evaluation: cubic in the fractional part, coefficients at the integer part
    for order, pn, dn in (("gq", "p_ga", "dp_ga"), ("qg", "p_ag", "dp_ag")):
        fn = "cider_coefs_spline_" + order
        try:
            s, args, hy = run_coefs(fn)
        except CUnsupported as e:
            ctx.undecided("%s summarised" % fn, str(e), fq)
            continue
        ev, val = final_writes(s, pn)
        dev, dval = final_writes(s, dn)
        if ev is None or dev is None:
            ctx.holds("%s writes p and dp" % fn, False, "", fq)
            continue
        gv, av = loop_var_by_bound(ev, args["ngrids"]), loop_var_by_bound(ev, args["nalpha"])
        if gv is None or av is None:
            ctx.undecided("%s loop structure" % fn, "no loop over [0, ngrids) x [0, nalpha) around the store", fq)
            continue
        d = rd("di_g", gv)
        ii = tm.mk_fn("trunc", d)
        x = d - ii
        na = args["nalpha"]
        w = lambda k: rd("w_iap", (ii * na + av) * 4 + k)
        want = w(0) + x * (w(1) + x * (w(2) + x * w(3)))
        H = hy + list(ev.guards)
        ctx.equal("%s p = cubic in the fractional index with the coefficients tabulated at the integer index" % fn, H, val, want, fq)
        xs = tm.var("xfrac")
        cubic = w(0) + xs * (w(1) + xs * (w(2) + xs * w(3)))
        ctx.equal("%s dp = derivative of that cubic w.r.t. the index" % fn, H, dval, tm.substitute(tm.diff(cubic, xs), {xs: x}), fq)
        ctx.canary("%s canary" % fn, H, val, want + 1)
    # clip: afterwards 0 <= di <= sizem1 - 1e-10 < sizem1, so (int) di <= sizem1 - 1 and the spline table rows i, i+... exist
    try:
        s, args, hy = run_coefs("cider_ind_clip")
        ev, val = final_writes(s, "di_g")
        ws = [e for e in s.events if e.kind == "w" and e.arr.name == "di_g"]
        last = ws[-1]
        sz = args["sizem1"]
        H = hy + list(last.guards) + [tm.mk_le(tm.ONE, sz)]
        ctx.valid("cider_ind_clip: 0 <= di after clipping", H, tm.mk_le(tm.ZERO, last.val), fq)
        ctx.valid("cider_ind_clip: di < sizem1 after clipping (so the integer part is at most sizem1 - 1)", H, tm.mk_lt(last.val, sz), fq)
    except (CUnsupported, IndexError) as e:
        ctx.undecided("cider_ind_clip summarised", str(e), fq)


# ------------------------------------------------------------------ spline plan set-up
def replay_spline_index():
    def replay(wit):
        """Native: a spline plan with spline_size != nalpha; the exponents get_q2a assigns to the spline nodes must come back from get_a2q_fast as 0, 1, ..., spline_size-1."""
        from pyvc import native
        native.install_shim()
        from ciderpress.dft.plans import NLDFSplinePlan
        from ciderpress.dft.settings import NLDFSettingsVJ
        st = NLDFSettingsVJ("MGGA", [1.0, 0.03, 0.0], "one", ["se"], [[1.0, 0.03, 0.0]])
        out = {}
        bad = False
        for nalpha, ssz in ((8, 15), (6, 16)):
            plan = NLDFSplinePlan(st, 1, 0.01, 1.8, nalpha, coef_order="gq", raise_large_expnt_error=False, spline_size=ssz)
            j = np.arange(ssz, dtype=np.float64)
            dense = plan.get_q2a(j * (plan.nalpha - 1) / (ssz - 1))
            di = plan.get_a2q_fast(np.ascontiguousarray(dense))[0]
            err = float(np.max(np.abs(di[:-1] - j[:-1])))
            out["nalpha=%d,spline_size=%d" % (nalpha, ssz)] = err
            bad = bad or err > 1e-8
        out["reproduced"] = bad
        return out
    return replay


def unit_spline_setup(ctx):
    from contracts.planharness import install_coef_contract
    it = ctx.interp
    pm = it.load_module(PMOD)
    sm = it.load_module("ciderpress.dft.settings")
    fq = [PMOD + ":NLDFSplinePlan._run_setup", PMOD + ":_get_ovlp_fit_interpolation_coefficients"]
    nalpha = 2
    install_coef_contract(it, nalpha)
    solve_log = []

    def stable_solve(interp, f, args, kwargs):
        ovlp, p = args[0], np.asarray(args[1], dtype=object)
        out = np.empty(p.shape, dtype=object)
        flat = [tm.lift(v) for v in p.reshape(-1)]
        for idx in itertools.product(*[range(k) for k in p.shape]):
            out[idx] = ufn("SOLVE_%s" % "_".join(map(str, idx)), flat)
        return out

    def construct(interp, f, args, kwargs):
        coefs = np.asarray(args[0], dtype=object)
        t = np.empty((coefs.shape[1], coefs.shape[0], 4), dtype=object)
        for idx in itertools.product(range(coefs.shape[1]), range(coefs.shape[0]), range(4)):
            t[idx] = ufn("SPL_%d_%d_%d" % idx, [tm.lift(v) for v in coefs.reshape(-1)])
        return t
    it.overrides[PMOD + ":_stable_solve"] = stable_solve
    it.overrides[PMOD + ":_construct_cubic_splines"] = construct
    ctx.assume("_stable_solve and _construct_cubic_splines (scipy-based helpers) are uninterpreted functions of their arguments; the coefficient routine by its contract (function of spec, exponent and extra parameters)")
    th = [tm.var("th_a0"), tm.var("th_gm"), tm.var("th_tm")]
    e1, e2 = tm.var("erf1"), tm.var("erf2")
    fp = [[tm.var("f0_a0"), tm.var("f0_gm"), tm.var("f0_tm"), e1], [tm.var("f1_a0"), tm.var("f1_gm"), tm.var("f1_tm")], [tm.var("f2_a0"), tm.var("f2_gm"), tm.var("f2_tm"), e2]]
    hyps = [tm.mk_lt(tm.ZERO, v) for v in th + [x for f in fp for x in f]]
    it.hyps = list(hyps)
    st = it.call(sm.ns["NLDFSettingsVJ"], ["MGGA", th, "one", ["se_erf_rinv", "se_ar2", "se_erf_rinv"], fp], {})
    a0, lam = tm.var("alpha0"), tm.var("lambd")
    it.hyps = hyps + [tm.mk_lt(tm.ZERO, a0), tm.mk_lt(tm.ONE, lam)]
    # the exponent <-> index pair: get_q2a by a recording contract (fresh exponent symbols, one per index it is asked for), the C routines cider_ind_* as its inverse
    # (assumed: the two are each other's inverse), cider_ind_clip as the identity inside the table
    q2a_log = {}

    def q2a(interp, f, args, kwargs):
        qs = np.asarray(args[1], dtype=object).reshape(-1)
        out = np.empty(len(qs), dtype=object)
        for k, q in enumerate(qs):
            key = tm.lift(q)
            if key not in q2a_log:
                q2a_log[key] = tm.var("expnt_of_index_%d" % len(q2a_log))
            out[k] = q2a_log[key]
        return out
    it.overrides[PMOD + ":NLDFAuxiliaryPlan.get_q2a"] = q2a
    from pyvc.npmodel import CPtr
    arr_of = lambda p_: p_.arr if isinstance(p_, CPtr) else p_

    def ind(interp, di, derivi, expnt, n, a0_, lam_):
        di, derivi, expnt = arr_of(di), arr_of(derivi), arr_of(expnt)
        inv = {v: k for k, v in q2a_log.items()}
        for k in range(int(n)):
            e = tm.lift(expnt.reshape(-1)[k])
            di.reshape(-1)[k] = inv[e] if e in inv else ufn("IDX", [e])
            derivi.reshape(-1)[k] = ufn("DIDX", [e])
    lib_ = pm.ns["libcider"].name
    for nm in ("cider_ind_etb", "cider_ind_zexp"):
        it.externals["%s.%s" % (lib_, nm)] = ind
    it.externals["%s.cider_ind_clip" % lib_] = lambda interp, *a: None
    for order in ("gq", "qg"):
        try:
            q2a_log.clear()
            plan = it.call(pm.ns["NLDFSplinePlan"], [st, 1, a0, lam, nalpha], {"coef_order": order, "raise_large_expnt_error": False, "spline_size": 3})
        except (Unsupported, PyRaise) as e:
            ctx.undecided("NLDFSplinePlan[%s] constructed" % order, str(e)[:200], fq)
            continue
        # node placement (real _run_setup) against the run-time index map (real get_a2q_fast): the exponent at which spline node j was tabulated must be given index j
        nodes = sorted(q2a_log.items(), key=lambda kv: float(tm.evaluate(kv[0], {})))
        fqi = [PMOD + ":NLDFSplinePlan.get_a2q_fast", PMOD + ":NLDFSplinePlan._run_setup"]
        ctx.holds("NLDFSplinePlan[%s]: _run_setup tabulates one exponent per spline node (spline_size = 3 nodes for nalpha = %d)" % (order, nalpha), len(nodes) == 3, "%d" % len(nodes), fqi)
        try:
            dense = np.array([v for _, v in nodes], dtype=object)
            di, derivi = it.call_method(plan, "get_a2q_fast", [dense])
            for j in range(len(nodes)):
                ctx.equal("NLDFSplinePlan[%s]: the exponent tabulated at spline node %d is mapped back to index %d by get_a2q_fast" % (order, j, j), it.hyps, np.asarray(di, dtype=object)[j], tm.const(j), fqi,
                          replay=replay_spline_index())
                if j > 0:
                    ctx.equal("NLDFSplinePlan[%s]: node %d: the index derivative carries the same spline-density factor as the index" % (order, j), it.hyps,
                              tm.lift(np.asarray(derivi, dtype=object)[j]) * nodes[j][0], tm.const(j) * ufn("DIDX", [nodes[j][1]]), fqi, replay=replay_spline_index())
        except (Unsupported, PyRaise) as e:
            ctx.undecided("NLDFSplinePlan[%s].get_a2q_fast runs" % order, str(e)[:200], fqi)
        tabs = plan.fields["_alpha_transform"]
        ctx.holds("NLDFSplinePlan[%s]: one spline table per feature parameter set plus one for theta" % order, len(tabs) == 4, "%d" % len(tabs), fq)
        if len(tabs) != 4:
            continue

        def owners(t):
            out = set()
            for v in np.asarray(t, dtype=object).reshape(-1):
                for u in tm.subterms(tm.lift(v)).values():
                    if u.op == "f" and u.args[0].startswith("P_"):
                        out.add((u.args[0].rsplit("_", 1)[0], tuple(a.args[0] for a in u.args[2:] if a.op == "v")))
            return out
        want = [("P_se_erf_rinv", ("erf1",)), ("P_se_ar2", ()), ("P_se_erf_rinv", ("erf2",)), ("P_se", ())]
        for i in range(4):
            got = owners(tabs[i])
            ctx.holds("NLDFSplinePlan[%s]: spline table %d is built from the coefficients of %s%s" % (order, i, want[i][0][2:], " with its own erf_mul" if want[i][1] else ""),
                      got == {want[i]}, "built from %s" % sorted(got), fq, replay=replay_spline_setup())
    return


def replay_spline_setup():
    def replay(wit):
        from pyvc import native
        native.install_shim()
        from ciderpress.dft.settings import NLDFSettingsVJ
        from ciderpress.dft.plans import NLDFSplinePlan
        st = NLDFSettingsVJ("MGGA", [1.0, 0.0, 0.03125], "one", ["se_erf_rinv", "se_erf_rinv"], [[2.0, 0.0, 0.04, 0.5], [2.0, 0.0, 0.04, 2.5]])
        plan = NLDFSplinePlan(st, 1, 0.01, 1.8, 10)
        same = bool(np.allclose(plan._alpha_transform[0], plan._alpha_transform[1]))
        return {"reproduced": same, "note": "two se_erf_rinv features with erf_mul 0.5 and 2.5: identical spline tables = %s" % same}
    return replay


# ------------------------------------------------------------------ SDMX l=1 forward contraction: which AO rows are read
def unit_sdmx_l1_rows(ctx):
    from contracts import c10
    rel = "mod_cider/fast_sdmx.c"
    fq = ["lib/%s:SDMXcontract_ao_to_bas_l1" % rel, "lib/%s:SDMXcontract_ao_to_bas" % rel]
    for fn in ("SDMXcontract_ao_to_bas", "SDMXcontract_ao_to_bas_l1"):
        try:
            s, args = c10.summarise(rel, fn)
        except CUnsupported as e:
            ctx.undecided("%s summarised" % fn, str(e), fq)
            continue
        rds = [e for e in s.events if e.kind == "r" and e.arr.name == "ao"]
        ctx.holds("%s reads the AO array" % fn, bool(rds), "", fq)
        assumes = oblig.side_hyps(s)
        nd = getattr(s, "niter_defs", {})
        n = 0
        for e in oblig._dedupe_l(rds):
            # loops by what they range over: irf over [rf_loc[sh], rf_loc[sh+1]); sh is the index of that table read; m over [0, 2l+1) with
            # l = bas[8 sh + 1]; the innermost loop is the grid point; the worksharing variable is the thread block
            names = {}
            for qv, lo, hi, st in e.qvars:
                lo_, hi_ = tm.lift(lo), tm.lift(hi)
                if lo_.op == "fi" and lo_.args[0] == "rf_loc":
                    names["irf"] = qv
                    names["sh"] = lo_.args[1]
            if "sh" in names:
                l_ = tm.mk_fi("bas", 8 * names["sh"] + 1)
                for qv, lo, hi, st in e.qvars:
                    try:
                        if tm.lift(lo) is tm.ZERO and NF().equal(tm.lift(hi), 2 * l_ + 1):
                            names["m"] = qv
                    except NFError:
                        pass
            if e.qvars:
                names["g"] = e.qvars[-1][0]
            if e.par is not None:
                names["thread"] = e.par
            if not all(k in names for k in ("sh", "irf", "m", "g", "thread")) or len(set(v.id for v in names.values())) != 5:
                continue
            sh, irf, m = names["sh"], names["irf"], names["m"]
            l = tm.mk_fi("bas", 8 * sh + 1)
            # position inside the block of the grid: whatever multiplies ngrids is the AO row
            ng = args["ngrids"]
            nfc = NF()
            z = tm.substitute(tm.lift(e.idx), {names["thread"]: tm.ZERO, names["g"]: tm.ZERO})
            row_want = tm.mk_fi("ao_loc", sh) + (irf - tm.mk_fi("rf_loc", sh)) * (2 * l + 1) + m
            rel_a = c10.relevant(assumes, [e.idx] + list(e.guards))
            H = c10.nonneg_hyps(args) + rel_a + list(e.guards) + [tm.mk_le(tm.ZERO, l)]
            r_, env, be = intarith.check_sat_int(H + [tm.mk_not(tm.mk_eq(z, row_want * ng))], 10.0)
            n += 1
            name = "%s reads, for contraction irf of shell sh and component m, the AO row ao_loc[sh] + (irf - rf_loc[sh]) (2l+1) + m  #%d" % (fn, n)
            if r_ == "unsat":
                ctx._rec("obligation", name, vc.Verdict("discharged", be), fq)
            elif r_ == "sat":
                ctx._rec("obligation", name, vc.Verdict("refuted", be, "another AO row is read", witness=env), fq, replay=replay_sdmx_rows(fn))
            else:
                ctx.undecided(name, "solver unknown", fq)
        ctx.holds("%s AO reads found with the (thread, sh, irf, m, g) loop structure" % fn, n > 0, "", fq)


def replay_sdmx_rows(fn):
    def replay(wit):
        import ctypes
        from pyvc import native
        lib = ctypes.CDLL(native.build_libs() + "/libmcider.so")
        rng = np.random.RandomState(5)
        P = lambda a: a.ctypes.data_as(ctypes.c_void_p)
        ci = ctypes.c_int
        ng, l, nctr = 5, 1, 2
        nm = 2 * l + 1
        bas = np.zeros((1, 8), dtype=np.int32)
        bas[0, 1], bas[0, 3] = l, nctr
        atm = np.zeros((1, 6), dtype=np.int32)
        ao_loc = np.array([0, nm * nctr], dtype=np.int32)
        rf_loc = np.array([0, nctr], dtype=np.int32)
        yloc = np.array([0, 4], dtype=np.int32)
        sl = np.array([0, 1], dtype=np.int32)
        env = np.zeros(4)
        ao = rng.rand(nm * nctr, ng)
        gridx, atomx = rng.rand(3, ng), rng.rand(3, 1)
        if fn.endswith("_l1"):
            ylm = rng.rand(4, 4, ng)
            vbas = np.full((7, nctr, ng), np.nan)
            lib.SDMXcontract_ao_to_bas_l1(ci(ng), P(vbas), P(ylm), P(ao), P(sl), P(ao_loc), P(yloc), P(atm), ci(1), P(bas), ci(1), P(env), P(gridx), P(atomx), ci(nctr), P(rf_loc))
            ref = np.einsum("kmg,cmg->kcg", ylm[:, l * l:l * l + nm], ao.reshape(nctr, nm, ng))
            err = float(np.max(np.abs(vbas[:4] - ref)))
        else:
            ylm = rng.rand(4, ng)
            vbas = np.full((nctr, ng), np.nan)
            lib.SDMXcontract_ao_to_bas(ci(ng), P(vbas), P(ylm), P(ao), P(sl), P(ao_loc), P(yloc), P(atm), ci(1), P(bas), ci(1), P(env), ci(nctr), P(rf_loc))
            ref = np.einsum("mg,cmg->cg", ylm[l * l:l * l + nm], ao.reshape(nctr, nm, ng))
            err = float(np.max(np.abs(vbas - ref)))
        return {"reproduced": bool(err > 1e-12), "max_abs_deviation_from_sum_m_ylm_times_ao_of_that_contraction": err, "shell": "l=1 with 2 contractions"}
    return replay


def unit_lp1_forward(fwd):
    """The documented l+1 step: (x, y, z) columns += displacement * g column, the g (scratch) column is consumed and cleared; nothing else changes."""
    def run(ctx):
        from contracts import c05
        rel = "mod_cider/conv_interpolation.c"
        fq = ["lib/%s:%s" % (rel, fwd)]
        try:
            sf, af, hf = c05.summarise(rel, fwd, c05._cols)
            M, lin, gd = c05.row_matrix(sf, af, hf)
        except CUnsupported as e:
            ctx.undecided("%s summarised" % fwd, "left the supported C subset: %s" % e, fq)
            return
        ctx.holds("%s is a linear map of the row" % fwd, lin, "", fq)
        cols = ["ix", "iy", "iz", "ig"]
        for i in range(3):
            for j in range(3):
                ctx.equal("%s: column %s keeps its own content and receives nothing from column %s" % (fwd, cols[i], cols[j]) if i != j else "%s: column %s keeps its own content" % (fwd, cols[i]),
                          hf, M[i, j], tm.ONE if i == j else tm.ZERO, fq)
        for j in range(4):
            ctx.equal("%s: the scratch column ig is cleared after it has been consumed (coefficient of %s)" % (fwd, cols[j]), hf, M[3, j], tm.ZERO, fq, replay=replay_lp1_forward(fwd))
        disp = [M[i, 3] for i in range(3)]
        ctx.holds("%s: the three displacement components multiplying the g column are read from different coordinates" % fwd,
                  len(set(tm.lift(d).id for d in disp)) == 3 and all(tm.lift(d) is not tm.ZERO for d in disp), "%s" % [tm.show(tm.lift(d), 60) for d in disp], fq)
    return run


def replay_lp1_forward(fwd):
    def replay(wit):
        import ctypes
        from pyvc import native
        lib = ctypes.CDLL(native.build_libs() + "/libmcider.so")
        rng = np.random.RandomState(3)
        P = lambda a: a.ctypes.data_as(ctypes.c_void_p)
        ci = ctypes.c_int
        nf, ig, ix, iy, iz = 6, 5, 1, 2, 3
        if fwd == "add_lp1_term_fwd":
            n = 7
            coords, ac = rng.rand(n, 3), rng.rand(3)
            f = rng.rand(n, nf)
            f0 = f.copy()
            lib.add_lp1_term_fwd(P(f), P(coords), P(ac), ci(n), ci(ig), ci(ix), ci(iy), ci(iz), ci(nf))
            disp = coords - ac
        elif fwd == "add_lp1_term_onsite_fwd":
            ar_loc = np.array([0, 3, 7], dtype=np.int32)
            n = 7
            coords, acs = rng.rand(n, 3), rng.rand(2, 3)
            f = rng.rand(n, nf)
            f0 = f.copy()
            lib.add_lp1_term_onsite_fwd(P(f), P(coords), ci(2), P(acs), P(ar_loc), ci(ig), ci(ix), ci(iy), ci(iz), ci(nf))
            disp = coords - np.repeat(acs, [3, 4], axis=0)
        else:
            rad_loc = np.array([0, 2, 5], dtype=np.int32)
            dir_loc = np.array([0, 2], dtype=np.int32)
            rads, dirs = rng.rand(2) + 0.5, rng.rand(5, 3)
            n = 5
            f = rng.rand(n, nf)
            f0 = f.copy()
            lib.add_lp1_onsite_new_fwd(P(f), P(rads), P(rad_loc), ci(2), P(dirs), P(dir_loc), ci(nf), ci(ig), ci(ix), ci(iy), ci(iz))
            disp = np.repeat(rads, [2, 3])[:, None] * dirs
        want = f0.copy()
        want[:, [ix, iy, iz]] += disp * f0[:, [ig]]
        want[:, ig] = 0
        err = float(np.max(np.abs(f - want)))
        return {"reproduced": bool(err > 1e-12), "max_abs_deviation_from_documented_step": err, "scratch_column_after": [float(v) for v in f[:, ig]]}
    return replay


def unit_contrib_layout(ctx):
    """ConvolutionCollection.__init__: the list of contribution ids handed to the C convolution generator has the BLOCK layout the interpolators index by
    (LCAOInterpolator: l=0 feature k in column k, the 'minus' part of l=1 feature j in column n0 + j, its 'plus' part in column n0 + n1 + j):
        ids = [ l0 ids in order | minus ids of the l1 features in order | plus ids of the l1 features in order ],   n0 = #l0 (+ nalpha with vj), n1 = #l1.
    Every ifeat_ids list of length <= 3 over the id table (bounded in the list length; ids are the table's own)."""
    LM = "ciderpress.dft.lcao_convolutions"
    it = ctx.interp
    mod = it.load_module(LM)
    fq = [LM + ":ConvolutionCollection.__init__", LM + ":ConvolutionCollection.n0", LM + ":ConvolutionCollection.n1"]
    table = mod.ns["IFEAT_ID_TO_CONTRIB"]
    l0 = sorted(k for k, v in table.items() if isinstance(v, int))
    l1 = sorted(k for k, v in table.items() if not isinstance(v, int))
    seen = []
    libc = mod.ns["libcider"]
    it.externals["%s.generate_convolution_collection" % libc.name] = lambda interp, *a: seen.append(a)
    it.externals["pyscf.lib.c_null_ptr"] = lambda interp: "nullptr"
    it.externals["ctypes.byref"] = lambda interp, x: x
    atco = mkobj_(mod, "_ATCO", atco_c_ptr="atco")
    lists = [[]]
    for n in (1, 2, 3):
        lists += [list(x) for x in itertools.product(l0 + l1, repeat=n)]
    nalpha = 2
    cnt = 0
    for ids in lists:
        for has_vj in (True, False):
            valid = all(not (a in l1 and b in l0) for i, a in enumerate(ids) for b in ids[i + 1:]) and (ids or has_vj)
            del seen[:]
            paths = all_paths(it, lambda: it.call(mod.ns["ConvolutionCollection"], [atco, atco, sym_array("al", (nalpha,)), sym_array("an", (nalpha,))], {"has_vj": has_vj, "ifeat_ids": list(ids)}))
            o, v = paths[0][0], paths[0][1]
            if not valid:
                ctx.bounded("ccl ids=%s vj=%s: an l0 feature after an l1 feature (or an empty collection) is rejected" % (ids, has_vj), o == "raise" and len(paths) == 1, "ifeat_ids of length <= 3", str(v)[:100])
                continue
            ok = o == "return" and len(paths) == 1 and len(seen) == 1
            detail = ""
            if ok:
                a = seen[0]
                got = [int(x) for x in a[5].arr.reshape(-1)]
                m = [table[k][0] for k in ids if k in l1]
                p_ = [table[k][1] for k in ids if k in l1]
                want = [table[k] for k in ids if k in l0] + m + p_
                n0 = it.getattr(v, "n0")
                n1 = it.getattr(v, "n1")
                ok = got == want and int(a[7]) == len(want) and int(a[6]) == nalpha and int(n1) == len(m) and int(n0) == len(want) - 2 * len(m) + (nalpha if has_vj else 0) \
                    and int(it.getattr(v, "num_out")) == len(want) + (nalpha if has_vj else 0)
                detail = "ids handed to C %s, block layout %s, n0 %s n1 %s" % (got, want, n0, n1)
            cnt += 1
            ctx.bounded("ccl ids=%s vj=%s: contribution ids in block layout [l0 | l1 minus | l1 plus], n0 / n1 / num_out consistent" % (ids, has_vj), ok, "ifeat_ids of length <= 3", detail,
                        witness={"ifeat_ids": ids, "has_vj": has_vj}, replay=replay_contrib_layout(ids, has_vj))
    ctx.holds("contribution-id layouts enumerated", cnt > 100, str(cnt), fq)


def mkobj_(mod, name, **f):
    o = Obj(ClassV(name, [], mod))
    o.fields.update(f)
    return o


def replay_contrib_layout(ids, has_vj):
    def replay(wit):
        from pyvc import native
        native.install_shim()
        import ciderpress.dft.lcao_convolutions as L
        got = {}

        class Lib(object):
            def generate_convolution_collection(self, *a):
                import ctypes
                n = a[7].value
                got["ids"] = [int(x) for x in np.ctypeslib.as_array(ctypes.cast(a[5], ctypes.POINTER(ctypes.c_int32)), shape=(n,))] if n else []

            def free_convolution_collection(self, *a):
                pass
        old = L.libcider
        try:
            L.libcider = Lib()
            A = type("A", (), {"atco_c_ptr": None})()
            L.ConvolutionCollection(A, A, np.ones(2), np.ones(2), has_vj=has_vj, ifeat_ids=list(ids))
        finally:
            L.libcider = old
        t = L.IFEAT_ID_TO_CONTRIB
        want = [t[k] for k in ids if isinstance(t[k], int)] + [t[k][0] for k in ids if not isinstance(t[k], int)] + [t[k][1] for k in ids if not isinstance(t[k], int)]
        return {"reproduced": bool(got.get("ids") != want), "ids_handed_to_C": got.get("ids"), "block_layout": want}
    return replay


def unit_function_to_convolve(kind, level, rho_mult):
    """NLDFAuxiliaryPlan.get_function_to_convolve: the function whose convolution gives the features is the density (rho_mult = 'one') or the density times the
    theta EXPONENT a_0[n] (rho_mult = 'expnt', docs: "rho times the theta exponent") — for Gaussian and spline plans alike (a spline plan interpolates in the
    index q(a), which is not the exponent); the returned derivative tuple is the derivative of that function w.r.t. (rho, sigma, tau)."""
    def run(ctx):
        from contracts.planharness import make_settings, make_plan
        PM, SM = "ciderpress.dft.plans", "ciderpress.dft.settings"
        it = ctx.interp
        hyps = []
        st = make_settings(it, "j", level, rho_mult, hyps)
        RC = tm.var("rhocut")
        hyps.append(tm.mk_lt(tm.ZERO, RC))
        if kind == "NLDFSplinePlan":
            # the spline tables are not needed here: set-up skipped, the exponent -> index map by contract (an unspecified differentiable function q(a))
            it.overrides[PM + ":NLDFSplinePlan._run_setup"] = lambda interp, f, args, kwargs: None

            def a2q(interp, f, args, kwargs):
                a = np.asarray(args[1], dtype=object)
                return (np.array([ufn("QIDX", [x]) for x in a], dtype=object), np.array([ufn("DQIDX", [x]) for x in a], dtype=object))
            it.overrides[PM + ":NLDFSplinePlan.get_a2q_fast"] = a2q
        fq = [PM + ":NLDFAuxiliaryPlan.get_function_to_convolve", PM + ":NLDFAuxiliaryPlan.eval_feat_exp", PM + ":%s._get_interpolation_arguments" % kind]
        for nspin in (1, 2):
            try:
                plan = make_plan(it, st, nspin, nalpha=2, hyps=list(hyps), rhocut=RC, kind=kind)
            except (PyRaise, Unsupported) as e:
                ctx.undecided("%s constructed" % kind, str(e)[:200], fq)
                return
            n_in = 3 if level == "MGGA" else 2
            rt = tuple(sym_array(nm, (NS,)) for nm in ("rho", "sigma", "tau")[:n_in])
            H = list(hyps) + [tm.mk_lt(RC / nspin, x) for x in rt[0]] + [tm.mk_le(tm.ZERO, x) for r in rt[1:] for x in r]
            it.hyps = list(H)
            sm = it.load_module(SM)
            th = list(st.fields["theta_params"]) if isinstance(st.fields.get("theta_params"), (list, tuple, np.ndarray)) else list(it.getattr(st, "theta_params"))
            tag = "%s/%s/%s/nspin%d" % (kind, level, rho_mult, nspin)
            # the generator's own call order on ONE rho_tuple object (LCAONLDFGenerator.get_features): the interpolation argument first, then the function
            # to convolve; both results are consumed afterwards, so the first must survive the second call
            def gen_prefix():
                tup = tuple(r.copy() for r in rt)
                arg = it.call_method(plan, "get_interpolation_arguments", [tup], {"i": -1})
                fun = it.call_method(plan, "get_function_to_convolve", [tup])
                return fun, arg
            paths = all_paths(it, gen_prefix)
            kw = dict(a0=th[0], grad_mul=th[1], rhocut=plan.fields["rhocut"], nspin=nspin)
            if level == "MGGA":
                kw["tau_mul"] = th[2]
            spec_paths = all_paths(it, lambda: it.call(sm.ns["get_cider_exponent" if level == "MGGA" else "get_cider_exponent_gga"], [r.copy() for r in rt], dict(kw)))
            n = 0
            for o, v, pc, _ in paths:
                if o != "return":
                    ctx.holds("%s returns#%d" % (tag, n), False, str(v)[:200], fq)
                    n += 1
                    continue
                for o2, v2, pc2, _ in spec_paths:
                    if o2 != "return":
                        continue
                    Hp = H + list(pc) + list(pc2)
                    (f, df), (arg, darg) = v
                    a_spec = v2[0]
                    for g in range(NS):
                        want_arg = tm.lift(a_spec[g]) if kind != "NLDFSplinePlan" else ufn("QIDX", [tm.lift(a_spec[g])])
                        ctx.equal("%s: after both calls the interpolation argument[%d] is still %s#%d" % (tag, g, "the theta exponent" if kind != "NLDFSplinePlan" else "q(theta exponent)", n),
                                  Hp, arg[g], want_arg, fq, replay=replay_function_to_convolve(level, "NLDFGaussianPlan"))
                    for g in range(NS):
                        want = tm.lift(rt[0][g]) * (tm.lift(a_spec[g]) if rho_mult == "expnt" else tm.ONE)
                        ctx.equal("%s: function to convolve[%d] = rho%s#%d" % (tag, g, " * theta exponent" if rho_mult == "expnt" else "", n), Hp, f[g], want, fq, replay=replay_function_to_convolve(level))
                        for k in range(n_in):
                            ctx.equal("%s: derivative output %d at point %d = d(function)/d(%s)#%d" % (tag, k, g, ("rho", "sigma", "tau")[k], n), Hp, df[k][g], tm.diff(want, rt[k][g]), fq)
                    if rho_mult == "expnt":
                        ctx.canary("%s canary#%d" % (tag, n), Hp, f[0], rt[0][0])
                    n += 1
    return run


def replay_function_to_convolve(level, kind="NLDFSplinePlan"):
    def replay(wit):
        if kind == "NLDFGaussianPlan":
            return _replay_generator_prefix(level)

        from pyvc import native
        native.install_shim()
        from ciderpress.dft.settings import NLDFSettingsVJ, get_cider_exponent, get_cider_exponent_gga
        from ciderpress.dft.plans import NLDFSplinePlan
        th = [1.0, 0.0, 0.03125] if level == "MGGA" else [1.0, 0.03]
        fp = [[2.0, 0.0, 0.04]] if level == "MGGA" else [[2.0, 0.04]]
        st = NLDFSettingsVJ(level, th, "expnt", ["se_ar2"], fp)
        plan = NLDFSplinePlan(st, 1, 0.01, 1.8, 12, spline_size=40)
        rho, sig, tau = np.array([0.3, 1.2]), np.array([0.1, 0.5]), np.array([0.2, 0.9])
        rt = (rho, sig, tau) if level == "MGGA" else (rho, sig)
        f = plan.get_function_to_convolve(tuple(r.copy() for r in rt))[0]
        if level == "MGGA":
            a = get_cider_exponent(rho, sig, tau, a0=th[0], grad_mul=th[1], tau_mul=th[2], rhocut=plan.rhocut, nspin=1)[0]
        else:
            a = get_cider_exponent_gga(rho, sig, a0=th[0], grad_mul=th[1], rhocut=plan.rhocut, nspin=1)[0]
        dev = float(np.max(np.abs(f - rho * a) / np.abs(rho * a)))
        return {"reproduced": bool(dev > 1e-10), "function_to_convolve": [float(x) for x in f], "rho_times_theta_exponent": [float(x) for x in rho * a]}
    return replay


def _replay_generator_prefix(level):
    from pyvc import native
    native.install_shim()
    from ciderpress.dft.settings import NLDFSettingsVJ, get_cider_exponent, get_cider_exponent_gga
    from ciderpress.dft.plans import NLDFGaussianPlan
    th = [1.0, 0.0, 0.03125] if level == "MGGA" else [1.0, 0.03]
    fp = [[2.0, 0.0, 0.04]] if level == "MGGA" else [[2.0, 0.04]]
    st = NLDFSettingsVJ(level, th, "expnt", ["se_ar2"], fp)
    plan = NLDFGaussianPlan(st, 1, 0.01, 1.8, 12)
    rho, sig, tau = np.array([0.3, 1.2]), np.array([0.1, 0.5]), np.array([0.2, 0.9])
    tup = (rho.copy(), sig.copy(), tau.copy()) if level == "MGGA" else (rho.copy(), sig.copy())
    arg = plan.get_interpolation_arguments(tup, i=-1)[0]
    fun = plan.get_function_to_convolve(tup)[0]
    if level == "MGGA":
        a = get_cider_exponent(rho, sig, tau, a0=th[0], grad_mul=th[1], tau_mul=th[2], rhocut=plan.rhocut, nspin=1)[0]
    else:
        a = get_cider_exponent_gga(rho, sig, a0=th[0], grad_mul=th[1], rhocut=plan.rhocut, nspin=1)[0]
    dev = float(np.max(np.abs(np.asarray(arg) - a) / np.abs(a)))
    return {"reproduced": bool(dev > 1e-10), "interpolation_argument_after_both_calls": [float(x) for x in np.asarray(arg)], "theta_exponent": [float(x) for x in a]}


def units():
    from contracts import c05
    u = [("ids", unit_ids), ("gto/gq", unit_gto("gq")), ("gto/qg", unit_gto("qg")), ("gto-scaling/gq", unit_gto_homogeneity("gq")), ("gto-scaling/qg", unit_gto_homogeneity("qg")), ("other-coefs", unit_other_coefs), ("spline-setup", unit_spline_setup), ("sdmx-l1-rows", unit_sdmx_l1_rows)]
    u.append(("contrib-layout", unit_contrib_layout))
    # the fast generator returns, for a density, what a fresh generator returns — whatever it was used for before (shared with C09)
    from contracts import c09
    for version in ("j", "ij"):
        u.append(("generator-history/%s" % version, c09.unit_generator_history(version, "MGGA")))
    # the fast SDMX shell kernels evaluate the documented convolved orbitals only if their per-thread work blocks are cleared before they are accumulated into
    for fn in ("SDMXcontract_smooth0", "SDMXcontract_rsq0", "SDMXcontract_smooth1", "SDMXcontract_rsq1"):
        u.append(("c-accumulators-cleared/" + fn, c09.unit_c_accumulators_cleared("mod_cider/fast_sdmx.c", fn, "ectr", lambda a: [tm.mk_le(a["ngrids"], tm.lift(56)), tm.mk_le(a["nctr"], tm.lift(40)), tm.mk_le(a["nprim"], tm.lift(40))])))
    # the real spherical harmonics through which every fast path projects and evaluates (value contract against the specification, shared with C06)
    from contracts import c06
    for L in (1, 2, 3, 4, 5):
        u.append(("sph-harm/%d" % L, c06.unit_sph_harm(L)))
    for kind in ("NLDFGaussianPlan", "NLDFSplinePlan"):
        for level in ("MGGA", "GGA"):
            for rm in ("one", "expnt"):
                u.append(("function-to-convolve/%s/%s/%s" % (kind, level, rm), unit_function_to_convolve(kind, level, rm)))
    for fwd, bwd, tabs in c05.INPLACE:
        u.append(("lp1/%s" % fwd, c05.unit_inplace(fwd, bwd, tabs)))
        u.append(("lp1-forward/%s" % fwd, unit_lp1_forward(fwd)))
    return u


EXPLANATION = (
    "What contracts can say about 'the fast algorithm reproduces the documented features' is the exactness of its closed-form ingredients: the id "
    "tables agree between Python and C, the Gaussian interpolation coefficients are the documented kernel moments for every spec with a documented "
    "closed form (all sizes, both layouts) with exact derivatives, the version-k damping, the spline index maps and the cubic evaluation are what the "
    "documentation says, the spline plan tabulates each feature with its own parameters, and the l+1 / SDMX index conventions are consistent.  The "
    "agreement of the auxiliary expansion with direct quadrature, its truncation error and the agreement of fast and slow code paths are "
    "numerical-analysis statements with no contract formulation within reach: not claimed.")
TRUSTED = [
    "A1 reals; engine C: int mathematical, double real, libm exp/log/sqrt/pow are the mathematical functions, (int)x = trunc(x)",
    "Gaussian moment formula (standard mathematics, cross-checked numerically in replays)",
    "not claimed: numerical agreement with quadrature, truncation control, fast-vs-slow path agreement, se_erf_rinv value (no documented closed form), VI integrals in convolutions.c",
]

if __name__ == "__main__":
    sys.exit(run_property("C02", "other", units(), EXPLANATION, TRUSTED, min_obligations=60))
