"""ASSUMED CONTRACTS of scikit-learn's kernel base classes (sklearn.gaussian_process.kernels), written from the
scikit-learn documentation of each kernel's formula and gradient convention (gradient w.r.t. log(theta), hyper-
parameters ordered by attribute name, fixed ones absent).  This file is *not* repository code: it is the contract
that engine P substitutes for the external dependency, and it is listed as an assumption in the evidence.
It is interpreted by the same symbolic interpreter as the repository source (sample matrices are small arrays of
symbolic reals), so a kernel of the repository that inherits __call__ from sklearn is executed against it.
"""
import numpy as np


class Hyperparameter:
    def __init__(self, name, value_type, bounds, n_elements=1, fixed=None):
        self.name = name
        self.value_type = value_type
        self.bounds = bounds
        self.n_elements = n_elements
        if fixed is None:
            fixed = isinstance(bounds, str) and bounds == "fixed"
        self.fixed = fixed


def _check_length_scale(X, length_scale):
    length_scale = np.squeeze(length_scale).astype(float)
    if np.ndim(length_scale) > 1:
        raise ValueError("length_scale cannot be of dimension greater than 1")
    if np.ndim(length_scale) == 1 and X.shape[1] != length_scale.shape[0]:
        raise ValueError("Anisotropic kernel must have the same number of dimensions as data")
    return length_scale


def _num_samples(X):
    return X.shape[0]


def cdist(XA, XB, metric="euclidean"):
    if metric != "sqeuclidean":
        raise ValueError("Unknown Distance Metric: %s" % metric)
    if XA.ndim != 2 or XB.ndim != 2:
        raise ValueError("XA must be a 2-dimensional array.")
    d = XA[:, None, :] - XB[None, :, :]
    return np.sum(d * d, axis=-1)


class Kernel:
    @property
    def hyperparameters(self):
        r = [getattr(self, attr) for attr in dir(self) if attr.startswith("hyperparameter_")]
        return r

    @property
    def n_dims(self):
        return self.theta.shape[0]

    @property
    def requires_vector_input(self):
        return True

    def is_stationary(self):
        raise NotImplementedError

    def __add__(self, b):
        if not isinstance(b, Kernel):
            return Sum(self, ConstantKernel(b))
        return Sum(self, b)

    def __mul__(self, b):
        if not isinstance(b, Kernel):
            return Product(self, ConstantKernel(b))
        return Product(self, b)

    def __pow__(self, b):
        return Exponentiation(self, b)


class StationaryKernelMixin:
    def is_stationary(self):
        return True


class NormalizedKernelMixin:
    def diag(self, X):
        return np.ones(X.shape[0])


class GenericKernelMixin:
    @property
    def requires_vector_input(self):
        return False


class KernelOperator(Kernel):
    def __init__(self, k1, k2):
        self.k1 = k1
        self.k2 = k2

    @property
    def hyperparameters(self):
        r = []
        for hyperparameter in self.k1.hyperparameters:
            r.append(Hyperparameter("k1__" + hyperparameter.name, hyperparameter.value_type, hyperparameter.bounds, hyperparameter.n_elements))
        for hyperparameter in self.k2.hyperparameters:
            r.append(Hyperparameter("k2__" + hyperparameter.name, hyperparameter.value_type, hyperparameter.bounds, hyperparameter.n_elements))
        return r

    def is_stationary(self):
        return self.k1.is_stationary() and self.k2.is_stationary()


class Sum(KernelOperator):
    def __call__(self, X, Y=None, eval_gradient=False):
        if eval_gradient:
            K1, K1_gradient = self.k1(X, Y, eval_gradient=True)
            K2, K2_gradient = self.k2(X, Y, eval_gradient=True)
            return K1 + K2, np.concatenate((K1_gradient, K2_gradient), axis=2)
        else:
            return self.k1(X, Y) + self.k2(X, Y)

    def diag(self, X):
        return self.k1.diag(X) + self.k2.diag(X)


class Product(KernelOperator):
    def __call__(self, X, Y=None, eval_gradient=False):
        if eval_gradient:
            K1, K1_gradient = self.k1(X, Y, eval_gradient=True)
            K2, K2_gradient = self.k2(X, Y, eval_gradient=True)
            return K1 * K2, np.concatenate((K1_gradient * K2[:, :, np.newaxis], K2_gradient * K1[:, :, np.newaxis]), axis=2)
        else:
            return self.k1(X, Y) * self.k2(X, Y)

    def diag(self, X):
        return self.k1.diag(X) * self.k2.diag(X)


class Exponentiation(Kernel):
    def __init__(self, kernel, exponent):
        self.kernel = kernel
        self.exponent = exponent

    @property
    def hyperparameters(self):
        r = []
        for hyperparameter in self.kernel.hyperparameters:
            r.append(Hyperparameter("kernel__" + hyperparameter.name, hyperparameter.value_type, hyperparameter.bounds, hyperparameter.n_elements))
        return r

    def __call__(self, X, Y=None, eval_gradient=False):
        if eval_gradient:
            K, K_gradient = self.kernel(X, Y, eval_gradient=True)
            K_gradient = K_gradient * (self.exponent * K[:, :, np.newaxis] ** (self.exponent - 1))
            return K**self.exponent, K_gradient
        else:
            K = self.kernel(X, Y, eval_gradient=False)
            return K**self.exponent

    def diag(self, X):
        return self.kernel.diag(X) ** self.exponent

    def is_stationary(self):
        return self.kernel.is_stationary()


class ConstantKernel(StationaryKernelMixin, GenericKernelMixin, Kernel):
    def __init__(self, constant_value=1.0, constant_value_bounds=(1e-5, 1e5)):
        self.constant_value = constant_value
        self.constant_value_bounds = constant_value_bounds

    @property
    def hyperparameter_constant_value(self):
        return Hyperparameter("constant_value", "numeric", self.constant_value_bounds)

    def __call__(self, X, Y=None, eval_gradient=False):
        if Y is None:
            Y = X
        elif eval_gradient:
            raise ValueError("Gradient can only be evaluated when Y is None.")
        K = np.full((_num_samples(X), _num_samples(Y)), self.constant_value)
        if eval_gradient:
            if not self.hyperparameter_constant_value.fixed:
                return K, np.full((_num_samples(X), _num_samples(X), 1), self.constant_value)
            else:
                return K, np.empty((_num_samples(X), _num_samples(X), 0))
        else:
            return K

    def diag(self, X):
        return np.full(_num_samples(X), self.constant_value)


class WhiteKernel(StationaryKernelMixin, GenericKernelMixin, Kernel):
    def __init__(self, noise_level=1.0, noise_level_bounds=(1e-5, 1e5)):
        self.noise_level = noise_level
        self.noise_level_bounds = noise_level_bounds

    @property
    def hyperparameter_noise_level(self):
        return Hyperparameter("noise_level", "numeric", self.noise_level_bounds)

    def __call__(self, X, Y=None, eval_gradient=False):
        if Y is not None and eval_gradient:
            raise ValueError("Gradient can only be evaluated when Y is None.")
        if Y is None:
            K = self.noise_level * np.eye(_num_samples(X))
            if eval_gradient:
                if not self.hyperparameter_noise_level.fixed:
                    return K, self.noise_level * np.eye(_num_samples(X))[:, :, np.newaxis]
                else:
                    return K, np.empty((_num_samples(X), _num_samples(X), 0))
            else:
                return K
        else:
            return np.zeros((_num_samples(X), _num_samples(Y)))

    def diag(self, X):
        return np.full(_num_samples(X), self.noise_level)


class RBF(StationaryKernelMixin, NormalizedKernelMixin, Kernel):
    def __init__(self, length_scale=1.0, length_scale_bounds=(1e-5, 1e5)):
        self.length_scale = length_scale
        self.length_scale_bounds = length_scale_bounds

    @property
    def anisotropic(self):
        return np.iterable(self.length_scale) and len(self.length_scale) > 1

    @property
    def hyperparameter_length_scale(self):
        if self.anisotropic:
            return Hyperparameter("length_scale", "numeric", self.length_scale_bounds, len(self.length_scale))
        return Hyperparameter("length_scale", "numeric", self.length_scale_bounds)

    def __call__(self, X, Y=None, eval_gradient=False):
        X = np.atleast_2d(X)
        length_scale = _check_length_scale(X, self.length_scale)
        if Y is None:
            dists = cdist(X / length_scale, X / length_scale, metric="sqeuclidean")
            K = np.exp(-0.5 * dists)
        else:
            if eval_gradient:
                raise ValueError("Gradient can only be evaluated when Y is None.")
            dists = cdist(X / length_scale, Y / length_scale, metric="sqeuclidean")
            K = np.exp(-0.5 * dists)
        if eval_gradient:
            if self.hyperparameter_length_scale.fixed:
                return K, np.empty((X.shape[0], X.shape[0], 0))
            elif not self.anisotropic or length_scale.shape[0] == 1:
                K_gradient = (K * dists)[:, :, np.newaxis]
                return K, K_gradient
            elif self.anisotropic:
                K_gradient = (X[:, np.newaxis, :] - X[np.newaxis, :, :]) ** 2 / (length_scale**2)
                K_gradient = K_gradient * K[..., np.newaxis]
                return K, K_gradient
        else:
            return K


class DotProduct(Kernel):
    def __init__(self, sigma_0=1.0, sigma_0_bounds=(1e-5, 1e5)):
        self.sigma_0 = sigma_0
        self.sigma_0_bounds = sigma_0_bounds

    @property
    def hyperparameter_sigma_0(self):
        return Hyperparameter("sigma_0", "numeric", self.sigma_0_bounds)

    def __call__(self, X, Y=None, eval_gradient=False):
        X = np.atleast_2d(X)
        if Y is None:
            K = np.dot(X, X.T) + self.sigma_0**2
        else:
            if eval_gradient:
                raise ValueError("Gradient can only be evaluated when Y is None.")
            K = np.dot(X, Y.T) + self.sigma_0**2
        if eval_gradient:
            if not self.hyperparameter_sigma_0.fixed:
                K_gradient = np.empty((K.shape[0], K.shape[1], 1))
                K_gradient[..., 0] = 2 * self.sigma_0**2
                return K, K_gradient
            else:
                return K, np.empty((X.shape[0], X.shape[0], 0))
        else:
            return K

    def diag(self, X):
        return np.einsum("ij,ij->i", X, X) + self.sigma_0**2

    def is_stationary(self):
        return False
