"""Specification functions written from the documentation (docs/features/nldf.rst, the ALLOWED_*_SPECS
docstrings in ciderpress/dft/settings.py and docs/theory/uniform_scaling.rst) — never from the code.

Kernels are finite sums  sum_t c_t * A^{p_t} * r^{2 k_t} * exp(-b r^2):
  version I  (docs 'Version I'):  A = b = a0[n](r')                (exponent of the integrated coordinate)
  version J  (docs 'Version J' + ALLOWED_J_SPECS docstring):  b = a_i[n](r) + a0[n](r'),  A = a_i[n](r)
  version K  (docs 'Version K'):  b = a_i[n](r),  extra damping factor exp(-3 a0 / (2 a_i))
For a uniform density n the feature is  n * mult * sum_t c_t A^{p_t} M_{k_t}(b)  with the Gaussian moments
  M_k(b) = int r^{2k} exp(-b r^2) d^3r = (pi/b)^{3/2} (2k+1)!! / (2b)^k .
"""
from fractions import Fraction as Q

# spec -> list of (coefficient, power of A, k)
VI_KERNELS = {
    "se": [(1, 0, 0)],
    "se_r2": [(1, 0, 1)],
    "se_apr2": [(1, 1, 1)],
    "se_ap": [(1, 1, 0)],
    "se_ap2r2": [(1, 2, 1)],
    "se_lapl": [(4, 2, 1), (-2, 1, 0)],     # 4 k_se_ap2r2 - 2 k_se_ap
}
VJ_KERNELS = {
    "se": [(1, 0, 0)],
    "se_ar2": [(1, 1, 1)],                   # squared-exponential * a * r^2
    "se_a2r4": [(1, 2, 2)],                  # squared-exponential * a^2 * r^4
    # "se_erf_rinv": documented only as '1/r with short-range erf damping' -> no closed form to check against
}
# docs/theory/uniform_scaling.rst + SPEC_USPS docstring: F[n_lambda](r) = lambda^u F[n](lambda r)
# derived here from the kernels: a -> lambda^2 a, r -> r/lambda, d^3r' n(r') invariant
def kernel_usp(terms):
    """uniform-scaling power of int k(a, r) n(r') d^3r' for k = sum c a^p r^(2k) e^{-a r^2}: 2p - 2k per term."""
    ps = set(2 * p - 2 * k for _, p, k in terms)
    assert len(ps) == 1
    return ps.pop()


def double_factorial_odd(k):
    r = 1
    for j in range(1, 2 * k + 2, 2):
        r *= j
    return r


def moment(tm, b, k):
    """M_k(b) as a term."""
    return (tm.PI / b) ** Q(3, 2) * Q(double_factorial_odd(k)) / (2 * b) ** k


def documented_exponent(tm, rho, sigma, tau, A, Bp, Cp, mgga, CFC):
    """a = pi (n/2)^(2/3) [A + B |grad n|^2/(8 n tau0) + C (tau/tau0 - 1)]  (docs 'Version J')."""
    tau0 = CFC * rho ** Q(5, 3)
    br = A + Bp * sigma / (8 * rho * tau0)
    if mgga:
        br = br + Cp * (tau / tau0 - 1)
    return tm.PI * (rho / 2) ** Q(2, 3) * br
