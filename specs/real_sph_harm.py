"""Specification of the orthonormal real spherical harmonics, written from the textbook definition (never from sph_harm.c).

For a unit vector (x, y, z), degree l >= 0 and order -l <= m <= l, stored at index l*l + l + m:

    Y_l0      = N_l0 P_l(z)
    Y_l,+m    = sqrt(2) N_lm Pi_lm(z) Re (x + i y)^m          (m > 0, "cosine" harmonics)
    Y_l,-m    = sqrt(2) N_lm Pi_lm(z) Im (x + i y)^m          (m > 0, "sine" harmonics)

    N_lm  = sqrt((2l+1)/(4 pi) (l-m)!/(l+m)!),   Pi_lm(z) = d^m P_l(z) / dz^m,
    P_l(z) = 2^-l sum_k (-1)^k C(l,k) C(2l-2k, l) z^(l-2k)        (Legendre polynomial)

(no Condon-Shortley phase: for l = 1 the three functions are sqrt(3/(4 pi)) (y, z, x) — the convention grids_indexer.py relies on with
dirs = ylm[:, [3, 1, 2]] * sqrt(4 pi / 3).)  Addition theorem (used as a lemma about this specification, proved per degree):
    sum_m Y_lm(r) Y_lm(r') = (2l+1)/(4 pi) P_l(r . r')      for unit r, r'.
"""
from fractions import Fraction as Q
from math import comb, factorial


def legendre_coeffs(l):
    """coefficients c[j] of z^j in P_l(z)."""
    c = [Q(0)] * (l + 1)
    for k in range(l // 2 + 1):
        c[l - 2 * k] = Q((-1) ** k * comb(l, k) * comb(2 * l - 2 * k, l), 2 ** l)
    return c


def deriv_coeffs(c, m):
    for _ in range(m):
        c = [j * c[j] for j in range(1, len(c))]
    return c


def poly(tm, c, z):
    out = tm.ZERO
    for j, cj in enumerate(c):
        if cj != 0:
            out = out + tm.const(cj) * (z ** j if j else tm.ONE)
    return out


def xy_power(tm, x, y, m):
    """(Re, Im) of (x + i y)^m as polynomials."""
    re, im = tm.ONE, tm.ZERO
    for _ in range(m):
        re, im = re * x - im * y, re * y + im * x
    return re, im


def real_sph_harm(tm, l, m, x, y, z):
    am = abs(m)
    n2 = Q(2 * l + 1, 4) * Q(factorial(l - am), factorial(l + am))      # N_lm^2 * pi
    norm = tm.mk_sqrt(tm.const(n2)) / tm.mk_sqrt(tm.PI)
    pi_lm = poly(tm, deriv_coeffs(legendre_coeffs(l), am), z)
    if m == 0:
        return norm * pi_lm
    re, im = xy_power(tm, x, y, am)
    return tm.mk_sqrt(tm.const(2)) * norm * pi_lm * (re if m > 0 else im)


def legendre(tm, l, t):
    return poly(tm, legendre_coeffs(l), t)
