"""./check <PID> --replay <file>: re-run the unit that produced a stored counterexample and print its records."""
import json
import os
import subprocess
import sys

VERIF = os.path.dirname(os.path.dirname(os.path.abspath(__file__)))


def main():
    pid, path = sys.argv[1], sys.argv[2]
    d = json.load(open(path))
    name = d["obligation"]
    print("replaying %s (property %s)" % (name, d["property"]))
    print("stored witness: %s" % json.dumps(d.get("witness"))[:500])
    print("stored native replay: %s" % json.dumps(d.get("replay"))[:800])
    parts = name.split("/")
    unit = "/".join(parts[:2]) if len(parts) > 2 else parts[0]
    rc = subprocess.call([sys.executable, os.path.join(VERIF, "contracts", pid.lower() + ".py"), "--unit", unit])
    sys.exit(rc)


if __name__ == "__main__":
    main()
