"""Exact normal form for real-closed 'generalised rational functions' (engine P, back end 'nf').

A term built from rationals, variables, + * /, powers with rational or symbolic-linear exponents,
and opaque atoms (exp, log, erf, uninterpreted functions, powers of non-monomial bases) is brought
to   num / den   with num, den 'generalised polynomials':

    poly  = { mono : Fraction }                 (zero coefficients dropped)
    mono  = sorted tuple of (atom_key, expo)    expo = linear form in exponent symbols
    expo  = sorted tuple of (sym, Fraction), sym '' for the constant part

Atoms
    v:<name>      a variable (Laurent/Puiseux exponents allowed: the variable must be > 0 when an
                  exponent is not a non-negative integer -> side condition)
    p:<prime>     a prime to a fractional/symbolic power (constant part kept in [0,1))
    b:<canon>     a non-monomial primitive polynomial P to a fractional/symbolic power,
                  constant part of the exponent kept in [0,1) by the relation b^1 = P  (P > 0: side condition)
    e:<canon>     exp(u), sign-normalised;  other functions  f:<name>(<canon args>)

lhs = rhs  is decided by  nf(lhs - rhs).num == {}  (valid where all side conditions hold and den != 0;
complete when the atoms are algebraically independent, which is the only source of 'not proved').
Side conditions are collected in NF.side and must be discharged separately (SMT).
"""
from fractions import Fraction as Q
from . import terms as tm
from .terms import T


class NFError(Exception):
    pass


# ------------------------------------------------------------------ exponent linear forms
def lf_const(q):
    q = Q(q)
    return (("", q),) if q != 0 else ()


def lf_add(a, b):
    d = dict(a)
    for k, v in b:
        d[k] = d.get(k, 0) + v
    return tuple(sorted((k, v) for k, v in d.items() if v != 0))


def lf_scale(a, q):
    if q == 0:
        return ()
    return tuple((k, v * q) for k, v in a)


def lf_is_const(a):
    return all(k == "" for k, _ in a)


def lf_constpart(a):
    for k, v in a:
        if k == "":
            return v
    return Q(0)


def lf_show(a):
    if not a:
        return "0"
    return "+".join(("%s" % v) if k == "" else ("%s*%s" % (v, k)) for k, v in a)


# ------------------------------------------------------------------ monomials / polynomials
def mono_mul(a, b):
    if not a:
        return b
    if not b:
        return a
    d = dict(a)
    for k, e in b:
        if k in d:
            d[k] = lf_add(d[k], e)
        else:
            d[k] = e
    return tuple(sorted((k, e) for k, e in d.items() if e))


def poly_add(a, b, cb=1):
    r = dict(a)
    for m, c in b.items():
        v = r.get(m, 0) + c * cb
        if v == 0:
            r.pop(m, None)
        else:
            r[m] = v
    return r


def poly_scale(a, q):
    if q == 0:
        return {}
    return {m: c * q for m, c in a.items()}


POLY_ONE = {(): Q(1)}


def mono_content(polys):
    """Largest monomial (constant exponents only) dividing every term of every polynomial given."""
    common = None
    for p in polys:
        for m in p:
            d = {k: lf_constpart(e) for k, e in m if lf_is_const(e)}
            if common is None:
                common = d
            else:
                common = {k: (min(v, d[k]) if (v > 0) == (d[k] > 0) else 0) for k, v in common.items() if k in d}
                common = {k: v for k, v in common.items() if v != 0}
            if not common:
                return ()
    if not common:
        return ()
    # only atoms whose exponent has the same sign in every term are extracted (min in absolute value)
    out = {}
    for k, v in common.items():
        vals = []
        for p in polys:
            for m in p:
                for kk, e in m:
                    if kk == k:
                        vals.append(lf_constpart(e))
        if all(x > 0 for x in vals):
            out[k] = min(vals)
        elif all(x < 0 for x in vals):
            out[k] = max(vals)
    return tuple(sorted((k, lf_const(v)) for k, v in out.items()))


def poly_div_mono(p, m):
    inv = tuple((k, lf_scale(e, -1)) for k, e in m)
    return {mono_mul(mm, inv): c for mm, c in p.items()}


def poly_is_const(p):
    return all(m == () for m in p)


def _smallprimes(n):
    f = {}
    d = 2
    while d * d <= n:
        while n % d == 0:
            f[d] = f.get(d, 0) + 1
            n //= d
        d += 1 if d == 2 else 2
    if n > 1:
        f[n] = f.get(n, 0) + 1
    return f


class NF(object):
    """One normalisation context: atom registry + side conditions."""

    def __init__(self, max_terms=120000):
        self.atoms = {}      # key -> defining term (for evaluation / SMT)
        self.bpoly = {}      # 'b:' key -> primitive poly P
        self.side = []       # list of (kind, term)  kind in 'pos' 'nonzero'
        self._side_seen = set()
        self.cache = {}
        self.max_terms = max_terms

    # ---- side conditions
    def _need(self, kind, term):
        k = (kind, term.id)
        if k not in self._side_seen:
            self._side_seen.add(k)
            self.side.append((kind, term))

    # ---- polynomial multiplication with b:/p: exponent reduction
    def pmul(self, a, b):
        if len(a) * len(b) > self.max_terms:
            raise NFError("polynomial too large (%d x %d)" % (len(a), len(b)))
        r = {}
        pending = []
        for ma, ca in a.items():
            for mb, cb in b.items():
                m = mono_mul(ma, mb)
                c = ca * cb
                if any((k[0] in "bp") and not (0 <= lf_constpart(e) < 1) for k, e in m):
                    pending.append((m, c))
                    continue
                v = r.get(m, 0) + c
                if v == 0:
                    r.pop(m, None)
                else:
                    r[m] = v
        for m, c in pending:
            r = poly_add(r, self._reduce_mono(m, c))
        return r

    def _reduce_mono(self, m, c):
        """Bring p:/b: exponents of one monomial into [0,1) (only non-negative overflow can occur here)."""
        out = {(): Q(c)}
        rest = []
        for k, e in m:
            if k[0] == "p":
                cp = lf_constpart(e)
                n = cp.numerator // cp.denominator
                if n != 0:
                    out = poly_scale(out, Q(int(k[2:])) ** n)
                    e = lf_add(e, lf_const(-n))
                if e:
                    rest.append((k, e))
            elif k[0] == "b":
                cp = lf_constpart(e)
                n = cp.numerator // cp.denominator
                if n < 0:
                    raise NFError("negative overflow of b-atom exponent")
                if n:
                    P = self.bpoly[k]
                    for _ in range(n):
                        out = self.pmul(out, P)
                    e = lf_add(e, lf_const(-n))
                if e:
                    rest.append((k, e))
            else:
                rest.append((k, e))
        rm = tuple(rest)
        return self.pmul(out, {rm: Q(1)}) if rm else out

    def ppow(self, p, n):
        r = POLY_ONE
        base = p
        while n:
            if n & 1:
                r = self.pmul(r, base)
            n >>= 1
            if n:
                base = self.pmul(base, base)
        return r

    # ---- rational functions
    def rf_add(self, a, b):
        (an, ad), (bn, bd) = a, b
        if ad == bd:
            return (poly_add(an, bn), ad)
        if poly_is_const(ad) and poly_is_const(bd):
            da, db = ad[()], bd[()]
            return (poly_add(poly_scale(an, 1 / da), poly_scale(bn, 1 / db)), POLY_ONE)
        return (poly_add(self.pmul(an, bd), self.pmul(bn, ad)), self.pmul(ad, bd))

    def rf_mul(self, a, b):
        (an, ad), (bn, bd) = a, b
        if an == bd and an:
            return (bn, ad)
        if bn == ad and bn:
            return (an, bd)
        return (self.pmul(an, bn), self.pmul(ad, bd))

    def rf_inv(self, a):
        n, d = a
        if not n:
            raise NFError("division by the zero polynomial")
        return (d, n)

    # ---- canonical text
    def canon_poly(self, p):
        items = sorted(p.items(), key=lambda kv: repr(kv[0]))
        return " + ".join("%s*%s" % (c, "*".join("%s^(%s)" % (k, lf_show(e)) for k, e in m) or "1")
                          for m, c in items) or "0"

    def canon_rf(self, r):
        """Canonical text of num/den:  monomial * (primitive num)/(primitive den) — the monomial contents of numerator and
        denominator are pulled out separately and combined (prime atoms brought into [0,1) with a rational coefficient), so that
        equal rational functions written with their monomial factors on different sides get the same text."""
        n, d = r
        if not n:
            return "0"
        cn = tuple((k, e) for k, e in mono_content([n]) if k[0] == "v")
        cd = tuple((k, e) for k, e in mono_content([d]) if k[0] == "v")
        if cn:
            n = poly_div_mono(n, cn)
        if cd:
            d = poly_div_mono(d, cd)
        mm = list(mono_mul(cn, tuple((k, lf_scale(e, -1)) for k, e in cd)))
        if len(d) == 1:
            # monomial denominator (a constant times prime powers / other atoms): move it into the numerator;
            # pmul brings prime-power exponents back into [0,1)
            (md, cdd), = d.items()
            if all(k[0] == "p" for k, _ in md):
                inv = tuple((k, lf_scale(e, -1)) for k, e in md)
                n = self.pmul(n, {inv: 1 / cdd})
                d = POLY_ONE
        lead = sorted(d.items(), key=lambda kv: repr(kv[0]))[0][1]
        n = poly_scale(n, 1 / lead)
        d = poly_scale(d, 1 / lead)
        ms = "*".join("%s^(%s)" % (k, lf_show(e)) for k, e in mm)
        body = self.canon_poly(n) if d == POLY_ONE else "(%s)/(%s)" % (self.canon_poly(n), self.canon_poly(d))
        return "%s*[%s]" % (ms, body) if ms else body

    # ---- atoms
    def atom(self, key, term):
        if key not in self.atoms:
            self.atoms[key] = term
        return ({((key, lf_const(1)),): Q(1)}, POLY_ONE)

    # ---- power
    def _expo_linform(self, et):
        n, d = self.nf(et)
        if not poly_is_const(d) or not d:
            return None
        dc = d[()]
        lf = {}
        for m, c in n.items():
            if m == ():
                lf[""] = lf.get("", 0) + c / dc
            elif len(m) == 1 and m[0][0].startswith("v:") and m[0][1] == lf_const(1):
                s = m[0][0][2:]
                lf[s] = lf.get(s, 0) + c / dc
            else:
                return None
        return tuple(sorted((k, v) for k, v in lf.items() if v != 0))

    def _const_pow(self, q, e):
        """q^e for positive rational q, linear-form exponent e -> poly (single monomial with p: atoms)."""
        if q <= 0:
            raise NFError("non-positive constant %s to a non-integer power" % q)
        coef = Q(1)
        mono = []
        fa = _smallprimes(q.numerator)
        for pr, k in _smallprimes(q.denominator).items():
            fa[pr] = fa.get(pr, 0) - k
        for pr, k in sorted(fa.items()):
            if k == 0:
                continue
            ee = lf_scale(e, k)
            cp = lf_constpart(ee)
            n = cp.numerator // cp.denominator
            coef *= Q(pr) ** n
            ee = lf_add(ee, lf_const(-n))
            if ee:
                key = "p:%d" % pr
                self.atoms.setdefault(key, tm.const(pr))
                mono.append((key, ee))
        return {tuple(sorted(mono)): coef}

    def _mono_pow(self, m, e):
        out = []
        for k, ee in m:
            if lf_is_const(ee):
                ne = lf_scale(e, lf_constpart(ee))
            elif lf_is_const(e):
                ne = lf_scale(ee, lf_constpart(e))
            else:
                return None
            if ne:
                out.append((k, ne))
            kind = "nonneg" if (lf_is_const(e) and lf_constpart(e) > 0) else "pos"
            self._need(kind, self.atoms[k] if k in self.atoms else tm.var(k[2:]))
        return tuple(out)

    def _poly_frac_pow(self, p, e, term_of_poly):
        """p^e (p > 0) -> rf, for a linear-form exponent e that is not an integer constant."""
        if len(p) == 1:
            (m, c), = p.items()
            mp = self._mono_pow(m, e)
            if mp is None:
                return None
            cp = self._const_pow(c, e)
            return (self.pmul(cp, {mp: Q(1)}), POLY_ONE)
        # monomial content: (m * P)^e = m^e * P^e  (atoms of m are required positive: side conditions)
        mc = tuple((k, e_) for k, e_ in mono_content([p]) if k[0] in "vp")
        if mc:
            rest = self._poly_frac_pow(poly_div_mono(p, mc), e, term_of_poly)
            mp = self._mono_pow(mc, e)
            if rest is None or mp is None:
                return None
            return (self.pmul(rest[0], self.pmul({mp: Q(1)}, POLY_ONE)), rest[1])
        # primitive part: divide by the coefficient of the first monomial in canonical order
        lead = sorted(p.items(), key=lambda kv: repr(kv[0]))[0][1]
        if lead < 0:
            # keep the sign inside: (-(..))^e is not a real power; make the atom from p itself
            lead = -lead
        P = poly_scale(p, 1 / lead)
        key = "b:(%s)" % self.canon_poly(P)
        if key not in self.atoms:
            self.atoms[key] = self.poly_to_term(P)
            self.bpoly[key] = P
        self._need("nonneg" if (lf_is_const(e) and lf_constpart(e) > 0) else "pos", self.atoms[key])
        cp = lf_constpart(e)
        n = cp.numerator // cp.denominator
        f = lf_add(e, lf_const(-n))
        num = self._const_pow(lead, e) if lead != 1 else POLY_ONE
        den = POLY_ONE
        if f:
            num = self.pmul(num, {((key, f),): Q(1)})
        if n > 0:
            num = self.pmul(num, self.ppow(P, n))
        elif n < 0:
            den = self.ppow(P, -n)
        return (num, den)

    def rf_pow(self, base_t, exp_t):
        base = self.nf(base_t)
        if exp_t.op == "c" and exp_t.args[0].denominator == 1 and abs(exp_t.args[0]) <= 64:
            n = int(exp_t.args[0])
            if n >= 0:
                return (self.ppow(base[0], n), self.ppow(base[1], n))
            if not base[0]:
                raise NFError("0 to a negative power")
            self._need("nonzero", base_t)
            return (self.ppow(base[1], -n), self.ppow(base[0], -n))
        e = self._expo_linform(exp_t)
        if e is not None:
            if not base[0]:
                return ({}, POLY_ONE)
            try:
                a = self._poly_frac_pow(base[0], e, base_t)
                b = self._poly_frac_pow(base[1], e, base_t) if base[1] != POLY_ONE else (POLY_ONE, POLY_ONE)
            except NFError:
                a = b = None
            if a is not None and b is not None:
                # same condition as vc.definedness: x^(p/q) needs x >= 0 for p/q > 0, x > 0 otherwise
                cp = lf_constpart(e)
                self._need("nonneg" if (lf_is_const(e) and cp > 0) else "pos", base_t)
                return self.rf_mul(a, self.rf_inv(b))
        key = "f:pow(%s,%s)" % (self.canon_rf(base), self.canon_rf(self.nf(exp_t)))
        return self.atom(key, tm.mk_pow(base_t, exp_t))

    def poly_to_term(self, p):
        parts = []
        for m, c in sorted(p.items(), key=lambda kv: repr(kv[0])):
            fs = [tm.const(c)]
            for k, e in m:
                fs.append(tm.mk_pow(self.atoms[k], self.lf_to_term(e)))
            parts.append(tm.mk_mul(*fs))
        return tm.mk_add(*parts) if parts else tm.ZERO

    def rf_to_term(self, r):
        return tm.mk_div(self.poly_to_term(r[0]), self.poly_to_term(r[1]))

    @staticmethod
    def lf_to_term(e):
        return tm.mk_add(*[tm.const(v) if k == "" else tm.mk_mul(tm.const(v), tm.var(k)) for k, v in e]) if e else tm.ZERO

    # ---- main entry
    def nf(self, t):
        r = self.cache.get(t.id)
        if r is not None:
            return r
        op = t.op
        if op == "c":
            q = t.args[0]
            r = ({(): q} if q != 0 else {}, POLY_ONE)
        elif op == "v":
            r = self.atom("v:" + t.args[0], t)
        elif op == "+":
            r = ({}, POLY_ONE)
            for a in t.args:
                r = self.rf_add(r, self.nf(a))
        elif op == "*":
            r = (POLY_ONE, POLY_ONE)
            for a in t.args:
                r = self.rf_mul(r, self.nf(a))
        elif op == "^":
            r = self.rf_pow(t.args[0], t.args[1])
        elif op == "f":
            name = t.args[0]
            if name == "exp":
                # exp is a homomorphism: exp(sum_m c_m * m / den) = prod_m exp(m / den)^(c_m).  Every monomial of the argument
                # becomes its own positive atom carrying the rational coefficient as a (Puiseux) exponent, so that
                # exp(a + b) and exp(a) * exp(b) get the same normal form.
                u = self.nf(t.args[1])
                if not u[0]:
                    r = (POLY_ONE, POLY_ONE)
                else:
                    n, d = u
                    lead = sorted(d.items(), key=lambda kv: repr(kv[0]))[0][1]
                    n = poly_scale(n, 1 / lead)
                    d = poly_scale(d, 1 / lead)
                    r = (POLY_ONE, POLY_ONE)
                    for m, c in sorted(n.items(), key=lambda kv: repr(kv[0])):
                        one = ({m: Q(1)}, d)
                        key = "e:" + self.canon_rf(one)
                        if key not in self.atoms:
                            self.atoms[key] = tm.mk_fn("exp", self.rf_to_term(one))
                        r = self.rf_mul(r, ({((key, lf_const(c)),): Q(1)}, POLY_ONE))
            else:
                key = "f:%s(%s)" % (name, ",".join(self.canon_rf(self.nf(a)) for a in t.args[1:]))
                r = self.atom(key, t)
        elif op == "fi":
            key = "f:%s[%s]" % (t.args[0], ",".join(self.canon_rf(self.nf(a)) for a in t.args[1:]))
            r = self.atom(key, t)
        elif op == "sum":
            bv, lo, hi, body = t.args
            depth = self._sum_depth()
            canon_bv = tm.var("%%bound%d" % depth, "I")
            self._depth = depth + 1
            try:
                b2 = tm.substitute(body, {bv: canon_bv})
                brf = self.nf(b2)
            finally:
                self._depth -= 1
            tag = "%%bound%d" % depth
            lo_rf, hi_rf = self.nf(lo), self.nf(hi)
            bnd = "%s..%s" % (self.canon_rf(lo_rf), self.canon_rf(hi_rf))
            if any(tag in k for m in brf[1] for k, _ in m):
                key = "f:sum(%s: %s)" % (bnd, self.canon_rf(brf))
                r = self.atom(key, tm.mk_sum(canon_bv, lo, hi, b2))
            else:
                # linearity: sum(c * a(q) + ...) = c * sum(a(q)) + ...  for factors c free of the bound variable
                num = {}
                count = self.rf_add(hi_rf, (poly_scale(lo_rf[0], -1), lo_rf[1]))
                for m, c in brf[0].items():
                    inside = tuple((k, e) for k, e in m if tag in k)
                    outside = tuple((k, e) for k, e in m if tag not in k)
                    if not inside:
                        if count[1] != POLY_ONE:
                            raise NFError("non-polynomial loop bounds")
                        contrib = self.pmul({outside: c}, count[0])
                    else:
                        ikey = "f:sum(%s: %s)" % (bnd, self.canon_poly({inside: Q(1)}))
                        if ikey not in self.atoms:
                            self.atoms[ikey] = tm.mk_sum(canon_bv, lo, hi, self.poly_to_term({inside: Q(1)}))
                        contrib = self.pmul({outside: c}, {((ikey, lf_const(1)),): Q(1)})
                    num = poly_add(num, contrib)
                r = (num, brf[1])
        elif op == "ite":
            raise NFError("unresolved ite in normal form")
        else:
            raise NFError("boolean term in normal form")
        if not r[0]:
            r = ({}, POLY_ONE)
        self.cache[t.id] = r
        return r

    def _sum_depth(self):
        return getattr(self, "_depth", 0)

    def is_zero(self, t):
        return not self.nf(t)[0]

    def equal(self, a, b):
        return self.is_zero(tm.mk_add(a, tm.mk_neg(b)))

    def side_terms(self):
        """Side conditions as boolean terms."""
        out = []
        for kind, t in self.side:
            if t.op == "c":
                if t.args[0] < 0 or (t.args[0] == 0 and kind != "nonneg"):
                    out.append(tm.FALSE)
                continue
            if t.op == "v" and t.args[0] == "pi":
                continue
            if kind == "nonzero":
                out.append(tm.mk_not(tm.mk_eq(t, tm.ZERO)))
            elif kind == "nonneg":
                out.append(tm.mk_le(tm.ZERO, t))
            else:
                out.append(tm.mk_lt(tm.ZERO, t))
        return out
