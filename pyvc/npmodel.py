"""numpy / builtins model for engine P (assumption A3 of DESIGN.md).

Arrays of reals are numpy *object* arrays whose elements are exact scalars (terms, Fractions, ints), so
numpy itself supplies shapes, views, basic and fancy indexing, broadcasting and in-place update; only
element arithmetic is replaced (exact), and operations whose result depends on symbolic truth values
(maximum, where, clip, masked assignment) become `ite` terms.
"""
import itertools
from fractions import Fraction as Q

import numpy as np

from . import terms as tm
from .terms import T


def _imp():
    from . import interp
    return interp


class NSModel(object):
    """A modelled external namespace (attribute -> value)."""

    def __init__(self, name, table):
        self.name = name
        self.table = table

    def get(self, name):
        I = _imp()
        if name in self.table:
            return self.table[name]
        return I.Opaque("%s.%s" % (self.name, name))


class DType(object):
    def __init__(self, name, kind):
        self.name = name
        self.kind = kind

    def __repr__(self):
        return "dtype(%s)" % self.name


DT_F8 = DType("float64", "f")
DT_I8 = DType("int64", "i")
DT_I4 = DType("int32", "i")
DT_C16 = DType("complex128", "c")
DT_BOOL = DType("bool", "b")
DT_OBJ = DType("object", "O")


def dtype_of(a):
    if a.dtype == object:
        if a.size:
            x = a.reshape(-1)[0]
            if isinstance(x, T) and x.is_bool:
                return DT_BOOL
        return DT_F8
    if a.dtype == bool:
        return DT_BOOL
    if a.dtype == np.int32:
        return DT_I4
    if a.dtype.kind in "iu":
        return DT_I8
    if a.dtype.kind == "f":
        return DT_F8
    return DType(str(a.dtype), a.dtype.kind)


def native(fn, *a, **k):
    I = _imp()
    try:
        return fn(*a, **k)
    except tm.SymbolicBool:
        raise
    except ValueError as e:
        raise I.PyRaise(I.mk_exc("ValueError", str(e)))
    except IndexError as e:
        raise I.PyRaise(I.mk_exc("IndexError", str(e)))
    except TypeError as e:
        raise I.PyRaise(I.mk_exc("TypeError", str(e)))
    except ZeroDivisionError as e:
        raise I.PyRaise(I.mk_exc("ZeroDivisionError", str(e)))


def as_exact(x):
    """Python/numpy scalar -> exact scalar (int, Fraction, T)."""
    if isinstance(x, (T, Q)) or x is None:
        return x
    if isinstance(x, bool):
        return x
    if isinstance(x, (int, np.integer)):
        return int(x)
    if isinstance(x, (float, np.floating)):
        if x != x or x in (float("inf"), float("-inf")):
            return tm.const(float(x))
        return Q(repr(float(x)))
    if isinstance(x, np.bool_):
        return bool(x)
    return x


def to_array(v, want_object=None):
    """Value -> ndarray.  Lists of ints stay integer arrays; anything real-valued becomes an object array."""
    I = _imp()
    if isinstance(v, np.ndarray):
        if v.dtype.kind == "f":
            return I.obj_array(v)
        return v
    if isinstance(v, (T, Q)):
        a = np.empty((), dtype=object)
        a[()] = v
        return a
    if isinstance(v, (bool, int, np.integer)):
        return np.asarray(v)
    if isinstance(v, (list, tuple, range)):
        flat = list(_flatten(v))
        if all(isinstance(x, (int, np.integer)) and not isinstance(x, bool) for x in flat) and not want_object:
            return native(np.array, _tolists(v), dtype=np.int64) if flat else np.zeros(_shape_of(v))
        if flat and all(isinstance(x, (bool, np.bool_)) for x in flat) and not want_object:
            return native(np.array, _tolists(v), dtype=bool)
        shp = _shape_of(v)
        a = np.empty(shp, dtype=object)
        if a.size != len(flat):
            raise I.PyRaise(I.mk_exc("ValueError", "inhomogeneous array shape"))
        fl = a.reshape(-1)
        for i, x in enumerate(flat):
            fl[i] = as_exact(x)
        return a
    raise I.Unsupported("array from %r" % type(v).__name__)


def _flatten(v):
    if isinstance(v, np.ndarray):
        for x in v.reshape(-1):
            yield x
    elif isinstance(v, (list, tuple, range)):
        for x in v:
            for y in _flatten(x):
                yield y
    else:
        yield v


def _tolists(v):
    if isinstance(v, np.ndarray):
        return v.tolist()
    if isinstance(v, (list, tuple, range)):
        return [_tolists(x) for x in v]
    return v


def _shape_of(v):
    if isinstance(v, np.ndarray):
        return v.shape
    if isinstance(v, (list, tuple, range)):
        n = len(v)
        if n == 0:
            return (0,)
        return (n,) + _shape_of(v[0])
    return ()


def fold(fn, xs, init=None):
    acc = init
    for x in xs:
        acc = x if acc is None else fn(acc, x)
    return acc


def t_max(a, b):
    I = _imp()
    if not isinstance(a, T) and not isinstance(b, T):
        return a if a >= b else b
    return tm.mk_max(I.to_term(a), I.to_term(b))


def t_min(a, b):
    I = _imp()
    if not isinstance(a, T) and not isinstance(b, T):
        return a if a <= b else b
    return tm.mk_min(I.to_term(a), I.to_term(b))


def t_ite(c, a, b):
    I = _imp()
    if c is True or c is tm.TRUE:
        return a
    if c is False or c is tm.FALSE:
        return b
    if isinstance(c, (bool, np.bool_)):
        return a if c else b
    return tm.mk_ite(I.to_term(c), I.to_term(a), I.to_term(b))


def t_unary(name):
    def f(x):
        I = _imp()
        if name in ("sqrt", "log") and isinstance(x, T):
            I.log_partial(name, x)
        if name == "sqrt":
            if isinstance(x, (int, Q)) and not isinstance(x, bool):
                r = _exact_root(Q(x), 2)
                if r is not None:
                    return r
            return tm.mk_sqrt(I.to_term(x))
        if name == "abs":
            if isinstance(x, (int, Q)):
                return abs(x)
            return tm.mk_fn("abs", x)
        if name == "exp" and isinstance(x, (int, Q)) and x == 0:
            return 1
        if name == "log" and isinstance(x, (int, Q)) and x == 1:
            return 0
        if name == "sign":
            if isinstance(x, (int, Q)):
                return (x > 0) - (x < 0)
            return tm.mk_ite(tm.mk_lt(x, tm.ZERO), tm.MONE, tm.mk_ite(tm.mk_lt(tm.ZERO, x), tm.ONE, tm.ZERO))
        if name == "square":
            return x * x
        if name == "isnan":
            return False   # A1: no NaN in the reals
        if name == "isfinite":
            return True
        if name == "floor" and isinstance(x, (int, Q)):
            return x.numerator // x.denominator if isinstance(x, Q) else x
        return tm.mk_fn(name, I.to_term(x))
    return f


def _exact_root(q, n):
    if q < 0:
        return None

    def iroot(k):
        r = int(round(k ** (1.0 / n)))
        for c in (r - 1, r, r + 1):
            if c >= 0 and c ** n == k:
                return c
        return None
    a, b = iroot(q.numerator), iroot(q.denominator)
    if a is None or b is None:
        return None
    return Q(a, b)


def sym_einsum(interp, subs, *ops):
    I = _imp()
    subs = subs.replace(" ", "")
    if "->" in subs:
        ins, out = subs.split("->")
    else:
        ins = subs
        letters = "".join(ins.split(","))
        out = "".join(sorted(c for c in set(letters) if letters.count(c) == 1))
    ins = ins.split(",")
    if len(ins) != len(ops):
        raise I.PyRaise(I.mk_exc("ValueError", "einsum: operand count"))
    ops = [to_array(o) for o in ops]
    if "..." in subs:
        # expand the ellipsis to explicit (upper-case) letters, right-aligned as numpy does
        nell = max(o.ndim - len(s_.replace("...", "")) for s_, o in zip(ins, ops) if "..." in s_)
        ell = "ABCDEFGH"[:nell]
        ins = [s_.replace("...", ell[nell - (o.ndim - len(s_.replace("...", ""))):]) if "..." in s_ else s_ for s_, o in zip(ins, ops)]
        out = out.replace("...", ell) if "->" in subs else ell + out.replace("...", "")
    dims = {}
    for s, o in zip(ins, ops):
        if len(s) != o.ndim:
            raise I.PyRaise(I.mk_exc("ValueError", "einsum: subscript %s has wrong rank for shape %s" % (s, o.shape)))
        for c, n in zip(s, o.shape):
            if dims.setdefault(c, n) != n:
                if dims[c] == 1:
                    dims[c] = n
                elif n != 1:
                    raise I.PyRaise(I.mk_exc("ValueError", "einsum: size mismatch on %s" % c))
    summed = [c for c in dims if c not in out]
    res = np.empty(tuple(dims[c] for c in out), dtype=object)
    for oi in itertools.product(*[range(dims[c]) for c in out]):
        env = dict(zip(out, oi))
        acc = 0
        for si in itertools.product(*[range(dims[c]) for c in summed]):
            env.update(zip(summed, si))
            term = 1
            for s, o in zip(ins, ops):
                x = o[tuple(env[c] if o.shape[k] != 1 else 0 for k, c in enumerate(s))]
                term = I.scalar_binop("Mult", term, as_exact(x))
            acc = I.scalar_binop("Add", acc, term)
        res[oi] = acc
    if res.ndim == 0:
        return res[()]
    return res


class NPModel(NSModel):
    def __init__(self, interp):
        self.interp = interp
        self.name = "numpy"
        self.n_uninit = 0
        I = _imp()
        B = I.Builtin

        def ew1(name):
            return B("np." + name, lambda x, out=None, where=None, **kw: self._ew_out(t_unary(name), out, x))

        tab = {
            "pi": tm.PI, "inf": tm.var("inf"), "nan": tm.var("nan"), "newaxis": None, "e": tm.mk_fn("exp", tm.ONE),
            "float64": DT_F8, "double": DT_F8, "float32": DType("float32", "f"), "float_": DT_F8,
            "int32": DT_I4, "int64": DT_I8, "int_": DT_I8, "intp": DT_I8, "uint8": DType("uint8", "u"),
            "complex128": DT_C16, "bool_": DT_BOOL, "ndarray": I.TYPE_NDARRAY, "integer": I.TYPE_INT,
            "floating": I.TYPE_FLOAT, "number": I.TYPE_NUMBER,
            "zeros": B("np.zeros", lambda shape, dtype=None, order=None: self.full(shape, 0, dtype)),
            "ones": B("np.ones", lambda shape, dtype=None, order=None: self.full(shape, 1, dtype)),
            "full": B("np.full", lambda shape, v, dtype=None, order=None: self.full(shape, v, dtype)),
            "empty": B("np.empty", lambda shape, dtype=None, order=None: self.empty(shape, dtype)),
            "zeros_like": B("np.zeros_like", lambda a, dtype=None, order=None: self.full(to_array(a).shape, 0, dtype or self._dt(a))),
            "ones_like": B("np.ones_like", lambda a, dtype=None: self.full(to_array(a).shape, 1, dtype or self._dt(a))),
            "full_like": B("np.full_like", lambda a, v, dtype=None: self.full(to_array(a).shape, v, dtype or self._dt(a))),
            "empty_like": B("np.empty_like", lambda a, dtype=None, order=None: self.empty(to_array(a).shape, dtype or self._dt(a))),
            "array": B("np.array", lambda v, dtype=None, order=None, copy=True, ndmin=0: self.array(v, dtype, True)),
            "asarray": B("np.asarray", lambda v, dtype=None, order=None: self.array(v, dtype, False)),
            "ascontiguousarray": B("np.ascontiguousarray", lambda v, dtype=None: self.contig(self.array(v, dtype, False))),
            "asfortranarray": B("np.asfortranarray", lambda v, dtype=None: np.asfortranarray(self.array(v, dtype, False))),
            "require": B("np.require", lambda v, dtype=None, requirements=None: self.contig(self.array(v, dtype, False))),
            "copy": B("np.copy", lambda v: to_array(v).copy()),
            "arange": B("np.arange", self.arange),
            "linspace": B("np.linspace", self.linspace),
            "eye": B("np.eye", lambda n, m=None, dtype=None: self.array(np.eye(n, m, dtype=int).tolist(), DT_F8 if dtype is None else dtype, True)),
            "identity": B("np.identity", lambda n, dtype=None: self.array(np.eye(n, dtype=int).tolist(), DT_F8, True)),
            "diag": B("np.diag", lambda a, k=0: native(np.diag, to_array(a), k)),
            "sqrt": ew1("sqrt"), "exp": ew1("exp"), "log": ew1("log"), "abs": ew1("abs"), "absolute": ew1("abs"),
            "fabs": ew1("abs"),
            "sign": ew1("sign"), "square": ew1("square"), "isnan": ew1("isnan"), "isfinite": ew1("isfinite"),
            "tanh": ew1("tanh"), "sin": ew1("sin"), "cos": ew1("cos"), "arcsinh": ew1("arcsinh"),
            "arctan": ew1("arctan"), "sinh": ew1("sinh"), "cosh": ew1("cosh"), "log1p": ew1("log1p"),
            "expm1": ew1("expm1"), "floor": ew1("floor"), "ceil": ew1("ceil"), "cbrt": B("np.cbrt", lambda x: self.binop("Pow", x, Q(1, 3))),
            "maximum": B("np.maximum", lambda a, b, out=None: self._ew_out(t_max, out, a, b)),
            "minimum": B("np.minimum", lambda a, b, out=None: self._ew_out(t_min, out, a, b)),
            "where": B("np.where", self.where),
            "clip": B("np.clip", lambda a, lo, hi, out=None: self._ew_out(lambda x, l, h: t_min(t_max(x, l), h) if l is not None and h is not None else (t_max(x, l) if h is None else t_min(x, h)), out, a, lo, hi)),
            "power": B("np.power", lambda a, b, out=None, where=None: self._ew_out(lambda x, y: I.scalar_binop("Pow", x, y), out, a, b)),
            "divide": B("np.divide", lambda a, b, out=None, where=None: self._ew_out(lambda x, y: I.scalar_binop("Div", x, y), out, a, b)),
            "multiply": B("np.multiply", lambda a, b, out=None: self._ew_out(lambda x, y: I.scalar_binop("Mult", x, y), out, a, b)),
            "add": B("np.add", lambda a, b, out=None: self._ew_out(lambda x, y: I.scalar_binop("Add", x, y), out, a, b)),
            "subtract": B("np.subtract", lambda a, b, out=None: self._ew_out(lambda x, y: I.scalar_binop("Sub", x, y), out, a, b)),
            "logical_and": B("np.logical_and", lambda a, b: self.binop("BitAnd", a, b)),
            "logical_or": B("np.logical_or", lambda a, b: self.binop("BitOr", a, b)),
            "logical_not": B("np.logical_not", lambda a: I.elementwise(lambda x: tm.mk_not(I.to_term(x)) if isinstance(x, T) else (not x), to_array(a))),
            "sum": B("np.sum", lambda a, axis=None, keepdims=False, dtype=None, out=None: self.reduce("sum", a, axis, keepdims)),
            "prod": B("np.prod", lambda a, axis=None, dtype=None: self.reduce("prod", a, axis, False)),
            "mean": B("np.mean", lambda a, axis=None: self.reduce("mean", a, axis, False)),
            "max": B("np.max", lambda a, axis=None, initial=None: self.reduce("max", a, axis, False)),
            "min": B("np.min", lambda a, axis=None, initial=None: self.reduce("min", a, axis, False)),
            "ptp": B("np.ptp", lambda a, axis=None: self.reduce("max", a, axis, False) - self.reduce("min", a, axis, False)),
            "amax": B("np.amax", lambda a, axis=None: self.reduce("max", a, axis, False)),
            "amin": B("np.amin", lambda a, axis=None: self.reduce("min", a, axis, False)),
            "all": B("np.all", lambda a, axis=None: self.reduce("all", a, axis, False)),
            "any": B("np.any", lambda a, axis=None: self.reduce("any", a, axis, False)),
            "cumsum": B("np.cumsum", lambda a, axis=None, dtype=None: native(np.cumsum, to_array(a), axis)),
            "dot": B("np.dot", lambda a, b, out=None: self.dot(a, b)),
            "matmul": B("np.matmul", lambda a, b: self.dot(a, b)),
            "outer": B("np.outer", lambda a, b: self.binop("Mult", to_array(a).reshape(-1, 1), to_array(b).reshape(1, -1))),
            "einsum": B("np.einsum", lambda subs, *ops, **kw: self._einsum(subs, ops, kw)),
            "tensordot": B("np.tensordot", self.tensordot),
            "trace": B("np.trace", lambda a: fold(lambda x, y: I.scalar_binop("Add", x, y), [to_array(a)[i, i] for i in range(min(to_array(a).shape))], 0)),
            "stack": B("np.stack", lambda arrs, axis=0: native(np.stack, [self._o(a) for a in arrs], axis)),
            "concatenate": B("np.concatenate", lambda arrs, axis=0: native(np.concatenate, self._common([to_array(a) for a in arrs]), axis)),
            "append": B("np.append", lambda a, b, axis=None: native(np.append, *self._common([to_array(a), to_array(b)]), axis=axis)),
            "hstack": B("np.hstack", lambda arrs: native(np.hstack, self._common([to_array(a) for a in arrs]))),
            "vstack": B("np.vstack", lambda arrs: native(np.vstack, self._common([to_array(a) for a in arrs]))),
            "reshape": B("np.reshape", lambda a, shape: native(np.reshape, to_array(a), shape)),
            "transpose": B("np.transpose", lambda a, axes=None: native(np.transpose, to_array(a), axes)),
            "swapaxes": B("np.swapaxes", lambda a, i, j: native(np.swapaxes, to_array(a), i, j)),
            "moveaxis": B("np.moveaxis", lambda a, i, j: native(np.moveaxis, to_array(a), i, j)),
            "broadcast_to": B("np.broadcast_to", lambda a, shape: native(np.broadcast_to, to_array(a), shape)),
            "tile": B("np.tile", lambda a, reps: native(np.tile, to_array(a), reps)),
            "repeat": B("np.repeat", lambda a, n, axis=None: native(np.repeat, to_array(a), n, axis)),
            "expand_dims": B("np.expand_dims", lambda a, axis: native(np.expand_dims, to_array(a), axis)),
            "squeeze": B("np.squeeze", lambda a, axis=None: native(np.squeeze, to_array(a), axis)),
            "atleast_1d": B("np.atleast_1d", lambda a: native(np.atleast_1d, to_array(a))),
            "atleast_2d": B("np.atleast_2d", lambda a: native(np.atleast_2d, to_array(a))),
            "ravel": B("np.ravel", lambda a: native(np.ravel, to_array(a))),
            "flip": B("np.flip", lambda a, axis=None: native(np.flip, to_array(a), axis)),
            "triu_indices": B("np.triu_indices", lambda n, k=0, m=None: native(np.triu_indices, n, k, m)),
            "tril_indices": B("np.tril_indices", lambda n, k=0, m=None: native(np.tril_indices, n, k, m)),
            "ix_": B("np.ix_", lambda *a: native(np.ix_, *[to_array(x) for x in a])),
            "argsort": B("np.argsort", lambda a, axis=-1, kind=None: native(np.argsort, self._concrete(a), axis, kind="stable")),
            "sort": B("np.sort", lambda a, axis=-1: native(np.sort, self._concrete(a), axis)),
            "unique": B("np.unique", lambda a, **kw: native(np.unique, self._concrete(a), **kw)),
            "nonzero": B("np.nonzero", lambda a: native(np.nonzero, self._concrete(a))),
            "argmax": B("np.argmax", lambda a, axis=None: native(np.argmax, self._concrete(a), axis)),
            "argmin": B("np.argmin", lambda a, axis=None: native(np.argmin, self._concrete(a), axis)),
            "searchsorted": B("np.searchsorted", lambda a, v, side="left": native(np.searchsorted, self._concrete(a), self._concrete(v), side)),
            "iterable": B("np.iterable", lambda x: isinstance(x, (list, tuple, np.ndarray)) and not (isinstance(x, np.ndarray) and x.ndim == 0)),
            "dstack": B("np.dstack", lambda arrs: native(np.dstack, self._common([to_array(a) for a in arrs]))),
            "isscalar": B("np.isscalar", lambda x: isinstance(x, (int, Q, T, bool, str))),
            "ndim": B("np.ndim", lambda a: to_array(a).ndim),
            "shape": B("np.shape", lambda a: to_array(a).shape),
            "size": B("np.size", lambda a: to_array(a).size),
            "array_equal": B("np.array_equal", lambda a, b: self.array_equal(a, b)),
            "allclose": B("np.allclose", lambda a, b, **kw: self.array_equal(a, b)),
            # symbolic arrays of the model are real (A1); complex data appears only behind C contracts
            "iscomplexobj": B("np.iscomplexobj", lambda a: bool(isinstance(a, np.ndarray) and a.dtype.kind == "c")),
            "isrealobj": B("np.isrealobj", lambda a: not (isinstance(a, np.ndarray) and a.dtype.kind == "c")),
            "iinfo": B("np.iinfo", lambda dt: NSModel("iinfo", {"max": 2 ** 31 - 1 if dt is DT_I4 else 2 ** 63 - 1, "min": -2 ** 31 if dt is DT_I4 else -2 ** 63})),
            "finfo": B("np.finfo", lambda dt=None: NSModel("finfo", {"eps": Q(1, 2 ** 52), "tiny": Q(1, 2 ** 1022), "max": tm.var("dblmax")})),
            "errstate": B("np.errstate", lambda **kw: None),
            "seterr": B("np.seterr", lambda **kw: None),
            "issubdtype": B("np.issubdtype", lambda a, b: True),
            "result_type": B("np.result_type", lambda *a: DT_F8),
            "dtype": B("np.dtype", lambda x: x),
        }
        NSModel.__init__(self, "numpy", tab)
        def _norm(a, ord=None, axis=None, keepdims=False):
            # Euclidean norm only (the default of numpy.linalg.norm for vectors / with an axis)
            if ord not in (None, 2):
                raise _imp().Unsupported("numpy.linalg.norm with ord=%r" % (ord,))
            a = to_array(a)
            sq = self._ew_out(lambda x: _imp().scalar_binop("Mult", x, x), None, a)
            return self._ew_out(t_unary("sqrt"), None, self.reduce("sum", sq, axis, keepdims))
        self.linalg = NSModel("numpy.linalg", {"norm": B("np.linalg.norm", _norm)})
        tab["linalg"] = self.linalg
        tab["random"] = I.Opaque("numpy.random")

        def _as_array(ptr, shape=None):
            # np.ctypeslib.as_array(pointer, shape): an array VIEW of the memory behind the pointer (no copy) — the pointer model carries that array
            if not isinstance(ptr, CPtr):
                raise _imp().Unsupported("np.ctypeslib.as_array of a value that is not a modelled pointer")
            flat = ptr.arr.reshape(-1)
            if shape is None:
                return flat
            n = int(np.prod([int(x) for x in (shape if isinstance(shape, (tuple, list)) else (shape,))]))
            if n > flat.size:
                raise _imp().Unsupported("np.ctypeslib.as_array beyond the modelled buffer")
            return flat[:n].reshape(tuple(int(x) for x in (shape if isinstance(shape, (tuple, list)) else (shape,))))
        tab["ctypeslib"] = NSModel("numpy.ctypeslib", {"as_array": B("np.ctypeslib.as_array", _as_array)})

    # ---- helpers
    def _dt(self, a):
        return dtype_of(to_array(a))

    def _o(self, a):
        I = _imp()
        a = to_array(a)
        return a

    def _common(self, arrs):
        I = _imp()
        if any(a.dtype == object for a in arrs):
            return [I.obj_array(a) for a in arrs]
        return arrs

    def _einsum(self, subs, ops, kw):
        """np.einsum with its `out=` argument honoured (the result OVERWRITES out, it is not added to it); `optimize` is irrelevant to the value."""
        I = _imp()
        extra = set(kw) - {"out", "optimize"}
        if extra:
            raise I.Unsupported("np.einsum keyword(s) %s" % sorted(extra))
        r = sym_einsum(self.interp, subs, *ops)
        out = kw.get("out")
        if out is None:
            return r
        r = np.asarray(r, dtype=object)
        if not isinstance(out, np.ndarray) or out.shape != r.shape:
            raise I.Unsupported("np.einsum out= of a different shape")
        if out.dtype != object:
            raise I.Unsupported("np.einsum out= into a numeric array with symbolic operands")
        out[...] = r
        return out

    def _concrete(self, a):
        I = _imp()
        a = to_array(a)
        if a.dtype != object:
            return a
        out = []
        for x in a.reshape(-1):
            if isinstance(x, T):
                if x.op != "c":
                    raise I.Unsupported("data-dependent numpy operation on symbolic values")
                x = x.args[0]
            out.append(x)
        if all(isinstance(x, int) or (isinstance(x, Q) and x.denominator == 1) for x in out):
            return np.array([int(x) for x in out], dtype=np.int64).reshape(a.shape)
        return np.array([float(x) for x in out]).reshape(a.shape)

    def _is_float_dt(self, dtype):
        return dtype is None or dtype is DT_F8 or dtype is DT_C16 or (isinstance(dtype, DType) and dtype.kind in "fc") or dtype is _imp().TYPE_FLOAT

    def _shape(self, shape):
        I = _imp()
        if isinstance(shape, (int, np.integer)):
            return (int(shape),)
        if isinstance(shape, Q) and shape.denominator == 1:
            return (int(shape),)
        out = []
        for s in shape:
            if isinstance(s, Q):
                if s.denominator != 1:
                    raise I.PyRaise(I.mk_exc("TypeError", "non-integer shape"))
                s = int(s)
            if isinstance(s, T):
                raise I.Unsupported("symbolic array extent")
            if isinstance(s, (int, np.integer)) and s < 0:
                raise I.PyRaise(I.mk_exc("ValueError", "negative dimensions are not allowed"))
            out.append(int(s))
        return tuple(out)

    def full(self, shape, v, dtype=None):
        shape = self._shape(shape)
        if self._is_float_dt(dtype):
            a = np.empty(shape, dtype=object)
            a[...] = as_exact(v)
            return a
        if dtype is DT_BOOL or dtype is _imp().TYPE_BOOL:
            return np.full(shape, bool(v), dtype=bool)
        return np.full(shape, int(v), dtype=np.int32 if dtype is DT_I4 else np.int64)

    def empty(self, shape, dtype=None):
        shape = self._shape(shape)
        if self._is_float_dt(dtype):
            a = np.empty(shape, dtype=object)
            fl = a.reshape(-1)
            for i in range(fl.size):
                self.n_uninit += 1
                fl[i] = tm.var("uninit!%d" % self.n_uninit)
            return a
        return np.zeros(shape, dtype=np.int32 if dtype is DT_I4 else np.int64)

    def array(self, v, dtype, copy):
        I = _imp()
        if isinstance(v, np.ndarray):
            a = v.copy() if copy else v
        else:
            a = to_array(v, want_object=(dtype is not None and self._is_float_dt(dtype)))
        if dtype is not None:
            a = self.astype(a, dtype, copy=False)
        return a

    def astype(self, a, dtype, copy=True):
        I = _imp()
        if self._is_float_dt(dtype):
            if a.dtype == object:
                return a.copy() if copy else a
            return I.obj_array(a)
        if isinstance(dtype, DType) and dtype.kind in "iu" or dtype is I.TYPE_INT:
            if a.dtype == object:
                from .intarith import _is_int
                flat = [x for x in a.reshape(-1)]
                if any(isinstance(x, T) and x.op != "c" for x in flat) and all(isinstance(x, (int, np.integer)) or (isinstance(x, Q) and x.denominator == 1) or (isinstance(x, T) and _is_int(x)) for x in flat):
                    return a.copy()       # an integer array with symbolic (integer-sorted) entries stays symbolic
                return self._concrete(a).astype(np.int32 if dtype is DT_I4 else np.int64)
            return a.astype(np.int32 if dtype is DT_I4 else np.int64)
        if dtype is DT_BOOL or dtype is I.TYPE_BOOL:
            if a.dtype == object:
                return a.copy() if copy else a
            return a.astype(bool)
        raise I.Unsupported("astype %r" % (dtype,))

    def contig(self, a):
        if a.flags.c_contiguous:
            return a
        return np.ascontiguousarray(a)

    def arange(self, *args, **kw):
        I = _imp()
        dtype = kw.get("dtype")
        if all(isinstance(x, (int, np.integer)) for x in args):
            a = np.arange(*[int(x) for x in args])
            if dtype is not None and self._is_float_dt(dtype):
                return I.obj_array(a)
            if dtype is DT_I4:
                return a.astype(np.int32)
            return a
        if any(isinstance(x, T) for x in args):
            raise I.Unsupported("symbolic arange")
        args = [Q(x) for x in args]
        start, stop, step = (Q(0), args[0], Q(1)) if len(args) == 1 else (args[0], args[1], Q(1)) if len(args) == 2 else args
        out = []
        x = start
        while (step > 0 and x < stop) or (step < 0 and x > stop):
            out.append(x)
            x += step
        return to_array(out, want_object=True)

    def linspace(self, a, b, n=50, endpoint=True, **kw):
        I = _imp()
        if isinstance(n, T):
            if n.op != "c":
                raise I.Unsupported("np.linspace with a symbolic number of points")
            n = n.args[0]
        n = int(n)
        div = (n - 1) if endpoint else n
        a, b = I.to_term(a), I.to_term(b)
        vals = [a + (b - a) * Q(i, div) if div else a for i in range(n)]
        return to_array([v.args[0] if v.op == "c" else v for v in vals], want_object=True)

    def _ew_out(self, fn, out, *args):
        I = _imp()
        args = [to_array(a) if isinstance(a, (np.ndarray, list, tuple)) else as_exact(a) for a in args]
        r = native(I.elementwise, fn, *args)
        if out is not None:
            native(out.__setitem__, Ellipsis, r)
            return out
        return r

    def where(self, c, a=None, b=None):
        I = _imp()
        if a is None:
            return native(np.where, self._concrete(c))
        return self._ew_out(t_ite, None, c, a, b)

    def reduce(self, kind, a, axis, keepdims):
        I = _imp()
        if isinstance(a, MaskedSel):
            if kind in ("max", "min") and axis is None:
                return a.extreme(kind)
            raise I.Unsupported("reduction %s over a masked selection" % kind)
        if isinstance(a, (list, tuple)) or isinstance(a, np.ndarray):
            a = to_array(a)
        else:
            return as_exact(a)
        if a.dtype != object:
            if kind in ("sum", "prod", "max", "min", "all", "any"):
                r = native(getattr(np, kind), a, axis=axis, **({"keepdims": True} if keepdims else {}))
                return as_exact(r) if not isinstance(r, np.ndarray) else r
            a = I.obj_array(a)
        ops = {"sum": lambda x, y: I.scalar_binop("Add", x, y), "prod": lambda x, y: I.scalar_binop("Mult", x, y),
               "max": t_max, "min": t_min,
               "all": lambda x, y: tm.mk_and(I.to_term(x), I.to_term(y)), "any": lambda x, y: tm.mk_or(I.to_term(x), I.to_term(y))}
        inits = {"sum": 0, "prod": 1, "all": tm.TRUE, "any": tm.FALSE}

        def red(xs):
            xs = [as_exact(x) for x in xs]
            if kind == "mean":
                if not xs:
                    raise I.Unsupported("mean of empty")
                return I.scalar_binop("Div", fold(ops["sum"], xs, 0), len(xs))
            if not xs and kind in ("max", "min"):
                raise I.PyRaise(I.mk_exc("ValueError", "zero-size array to reduction operation %s which has no identity" % kind))
            return fold(ops[kind], xs, inits.get(kind))
        if axis is None:
            r = red(list(a.reshape(-1)))
            if keepdims:
                out = np.empty((1,) * a.ndim, dtype=object)
                out[...] = r
                return out
            return r
        axes = (axis,) if isinstance(axis, (int, np.integer)) else tuple(axis)
        axes = tuple(x % a.ndim for x in axes)
        keep = [i for i in range(a.ndim) if i not in axes]
        moved = native(np.transpose, a, keep + list(axes))
        oshape = tuple(a.shape[i] for i in keep)
        out = np.empty(oshape, dtype=object)
        for idx in itertools.product(*[range(n) for n in oshape]):
            out[idx] = red(list(moved[idx].reshape(-1)))
        if keepdims:
            out = out.reshape([1 if i in axes else a.shape[i] for i in range(a.ndim)])
        if out.ndim == 0:
            return out[()]
        return out

    def dot(self, a, b):
        I = _imp()
        a, b = to_array(a), to_array(b)
        if a.dtype != object and b.dtype != object and a.dtype.kind in "iub" and b.dtype.kind in "iub":
            return native(np.dot, a, b)
        a, b = I.obj_array(a), I.obj_array(b)
        if a.ndim == 0 or b.ndim == 0:
            return self.binop("Mult", a, b)
        if a.ndim == 1 and b.ndim == 1:
            return sym_einsum(self.interp, "i,i->", a, b)
        if b.ndim == 1:
            return self.reduce("sum", self.binop("Mult", a, b), -1, False)
        if a.shape[-1] != b.shape[-2]:
            raise I.PyRaise(I.mk_exc("ValueError", "shapes %s and %s not aligned" % (a.shape, b.shape)))
        # a (..., k) . b (..., k, n) -> sum over k
        aa = a.reshape(a.shape + (1,))
        if b.ndim == 2:
            prod = self.binop("Mult", aa, b)
            return self.reduce("sum", prod, -2, False)
        raise I.Unsupported("dot of rank %d and %d" % (a.ndim, b.ndim))

    def tensordot(self, a, b, axes=2):
        I = _imp()
        a, b = to_array(a), to_array(b)
        if isinstance(axes, int):
            ax_a = list(range(a.ndim - axes, a.ndim))
            ax_b = list(range(axes))
        else:
            ax_a, ax_b = axes
            ax_a = [ax_a] if isinstance(ax_a, int) else list(ax_a)
            ax_b = [ax_b] if isinstance(ax_b, int) else list(ax_b)
        letters = "abcdefghijklmnopqrstuvwxyz"
        sa = list(letters[:a.ndim])
        sb = list(letters[a.ndim:a.ndim + b.ndim])
        for i, j in zip(ax_a, ax_b):
            sb[j] = sa[i]
        out = [c for k, c in enumerate(sa) if k not in [x % a.ndim for x in ax_a]] + \
              [c for k, c in enumerate(sb) if k not in [x % b.ndim for x in ax_b]]
        return sym_einsum(self.interp, "%s,%s->%s" % ("".join(sa), "".join(sb), "".join(out)), a, b)

    def array_equal(self, a, b):
        I = _imp()
        a, b = to_array(a), to_array(b)
        if a.shape != b.shape:
            return False
        acc = True
        for x, y in zip(a.reshape(-1), b.reshape(-1)):
            r = self.interp.equal(as_exact(x), as_exact(y))
            if r is False:
                return False
            if r is not True:
                acc = r if acc is True else tm.mk_and(I.to_term(acc), I.to_term(r))
        return acc

    # ---- operators
    def binop(self, k, a, b, inplace=False):
        I = _imp()
        A = to_array(a) if isinstance(a, (np.ndarray, list, tuple)) else a
        Bv = to_array(b) if isinstance(b, (np.ndarray, list, tuple)) else b
        if k == "MatMult":
            return self.dot(A, Bv)
        native_ok = all((isinstance(x, np.ndarray) and x.dtype != object and x.dtype.kind in "iub") or
                        (isinstance(x, (int, bool, np.integer)) and not isinstance(x, T)) for x in (A, Bv))
        if native_ok and k in ("Add", "Sub", "Mult", "FloorDiv", "Mod", "BitAnd", "BitOr", "BitXor", "LShift", "RShift"):
            import operator as op
            f = {"Add": op.add, "Sub": op.sub, "Mult": op.mul, "FloorDiv": op.floordiv, "Mod": op.mod,
                 "BitAnd": op.and_, "BitOr": op.or_, "BitXor": op.xor, "LShift": op.lshift, "RShift": op.rshift}[k]
            r = native(f, A, Bv)
            if inplace and isinstance(a, np.ndarray):
                native(a.__setitem__, Ellipsis, r)
                return a
            return r
        if native_ok and k == "Pow" and isinstance(Bv, (int, np.integer)) and Bv >= 0:
            return native(np.power, A, Bv)

        def f(x, y):
            return I.scalar_binop(k, as_exact(x), as_exact(y))
        if not isinstance(A, np.ndarray):
            A = as_exact(A)
        if not isinstance(Bv, np.ndarray):
            Bv = as_exact(Bv)
        r = native(I.elementwise, f, A, Bv)
        if inplace and isinstance(a, np.ndarray):
            if a.dtype != object:
                raise I.Unsupported("in-place real update of an integer array")
            if r.shape != a.shape:
                raise I.PyRaise(I.mk_exc("ValueError", "non-broadcastable output operand with shape %s doesn't match the broadcast shape %s" % (a.shape, r.shape)))
            a[...] = r
            return a
        return r

    def compare(self, k, a, b):
        I = _imp()
        A = to_array(a) if isinstance(a, (np.ndarray, list, tuple)) else as_exact(a)
        Bv = to_array(b) if isinstance(b, (np.ndarray, list, tuple)) else as_exact(b)
        if b is None or a is None:
            return k == "NotEq"
        cmpk = {"Lt": "Lt", "LtE": "LtE", "Gt": "Gt", "GtE": "GtE", "Eq": "Eq", "NotEq": "NotEq"}[k]

        def f(x, y):
            r = self.interp.compare(_OP[cmpk], as_exact(x), as_exact(y))
            return r
        return native(I.elementwise, f, A, Bv)

    # ---- indexing
    def _norm_index(self, idx):
        """Normalise an index; returns (index, has_symbolic_mask)."""
        I = _imp()
        sym = [False]

        def one(e):
            if isinstance(e, Q):
                if e.denominator != 1:
                    raise I.PyRaise(I.mk_exc("IndexError", "only integers, slices ... are valid indices"))
                return int(e)
            if isinstance(e, T):
                if e.op == "c" and e.args[0].denominator == 1:
                    return int(e.args[0])
                if e.is_bool:
                    raise I.Unsupported("scalar symbolic boolean index")
                raise I.Unsupported("symbolic array index %s" % tm.show(e, 60))
            if isinstance(e, list):
                e = to_array(e)
            if isinstance(e, np.ndarray):
                if e.dtype == object:
                    if I.is_bool_array(e):
                        c = I.mask_to_concrete(e)
                        if c is None:
                            sym[0] = True
                            return e
                        return c
                    return self._concrete(e)
                return e
            if isinstance(e, slice):
                return slice(*[one(x) if x is not None else None for x in (e.start, e.stop, e.step)])
            if isinstance(e, I.Obj):
                raise I.PyRaise(I.mk_exc("IndexError", "invalid index object"))
            return e
        if isinstance(idx, tuple):
            return tuple(one(e) for e in idx), sym[0]
        return one(idx), sym[0]

    def getitem(self, base, idx):
        I = _imp()
        idx, sym = self._norm_index(idx)
        if sym:
            return MaskedSel(base, idx)
        r = native(base.__getitem__, idx)
        if not isinstance(r, np.ndarray):
            return as_exact(r)
        return r

    def setitem(self, base, idx, v):
        I = _imp()
        idx, sym = self._norm_index(idx)
        if isinstance(v, (list, tuple)):
            v = to_array(v)
        if isinstance(v, np.ndarray) and v.dtype.kind == "f":
            v = I.obj_array(v)
        if not isinstance(v, np.ndarray):
            v = as_exact(v)
        if isinstance(v, MaskedSel):
            if not sym or isinstance(idx, tuple) or not MaskedSel.same_mask(idx, v.idx) or base.dtype != object:
                raise I.Unsupported("assignment from a symbolically masked selection through a different mask")
            full = v.base if isinstance(v.base, np.ndarray) else np.broadcast_to(np.asarray(v.base, dtype=object), base.shape)
            base[...] = I.elementwise(lambda c, new, old: t_ite(c, new, old), idx, full, base)
            return
        if base.dtype != object:
            if isinstance(v, (T, Q)) or (isinstance(v, np.ndarray) and v.dtype == object):
                cv = None
                if isinstance(v, Q) and v.denominator == 1:
                    cv = int(v)
                elif isinstance(v, np.ndarray):
                    cv = self._concrete(v)
                if cv is None:
                    raise I.Unsupported("real/symbolic value stored into an integer array")
                v = cv
        if not sym:
            native(base.__setitem__, idx, v)
            return
        self._masked_assign(base, idx, v)

    def _masked_assign(self, base, idx, v):
        I = _imp()
        tup = idx if isinstance(idx, tuple) else (idx,)
        pos = [i for i, e in enumerate(tup) if isinstance(e, np.ndarray) and e.dtype == object]
        if len(pos) != 1:
            raise I.Unsupported("several symbolic masks in one index")
        p = pos[0]
        mask = tup[p]
        for j, e in enumerate(tup):
            if j != p and not (isinstance(e, (int, np.integer, slice)) or e is Ellipsis or e is None):
                raise I.Unsupported("symbolic mask combined with advanced indexing")
        basic = tup[:p] + (slice(None),) * mask.ndim + tup[p + 1:]
        sub = native(base.__getitem__, basic)
        # axis of the first mask dimension inside `sub`
        consumed = sum(1 for e in tup if isinstance(e, (int, np.integer, slice))) + mask.ndim
        axis = 0
        for e in tup[:p]:
            if isinstance(e, slice) or e is None:
                axis += 1
            elif e is Ellipsis:
                axis += base.ndim - consumed
        if sub.shape[axis:axis + mask.ndim] != mask.shape:
            raise I.PyRaise(I.mk_exc("IndexError", "boolean index did not match indexed array: %s vs %s" % (sub.shape, mask.shape)))
        cshape = [1] * sub.ndim
        for i, n in enumerate(mask.shape):
            cshape[axis + i] = n
        cond = mask.reshape(cshape)
        if isinstance(v, np.ndarray) and v.ndim > 0:
            raise I.Unsupported("array value assigned through a symbolic mask")
        if isinstance(v, np.ndarray):
            v = as_exact(v[()])
        if base.dtype != object:
            raise I.Unsupported("symbolic mask on an integer array")
        new = I.elementwise(lambda c, old: t_ite(c, v, old), cond, sub)
        sub[...] = new

    # ---- attributes of arrays and scalars
    def array_attr(self, a, name):
        I = _imp()
        B = I.Builtin
        if name in ("shape", "ndim", "size", "T", "flags", "strides", "nbytes", "itemsize"):
            if name == "itemsize":
                return 8
            return getattr(a, name)
        if name == "dtype":
            return dtype_of(a)
        if name in ("real",):
            return a
        if name == "copy":
            return B("ndarray.copy", lambda order=None: a.copy())
        if name == "astype":
            return B("ndarray.astype", lambda dt, copy=True, order=None: self.astype(a, dt, copy))
        if name == "view":
            def _view(*args):
                # reinterpretation as another element type: object arrays carry no element width, so only the MEMORY IDENTITY is kept — a view of complex
                # elements over a buffer of doubles is modelled as every second element (it shares memory with the buffer, as the real view does)
                if args and isinstance(args[0], DType) and args[0].kind == "c" and a.ndim == 1 and a.size % 2 == 0:
                    return a[::2]
                return a.view()
            return B("ndarray.view", _view)
        if name in ("sum", "prod", "mean", "max", "min", "all", "any"):
            return B("ndarray." + name, lambda axis=None, keepdims=False, **kw: self.reduce(name, a, axis, keepdims))
        if name == "dot":
            return B("ndarray.dot", lambda b: self.dot(a, b))
        if name == "fill":
            return B("ndarray.fill", lambda v: native(a.__setitem__, Ellipsis, as_exact(v)))
        if name == "tolist":
            return B("ndarray.tolist", lambda: [as_exact(x) for x in a.tolist()] if a.ndim == 1 else _tolists(a))
        if name == "item":
            return B("ndarray.item", lambda *args: as_exact(native(a.item, *args)))
        if name in ("conj", "conjugate"):
            return B("ndarray.conj", lambda: a)
        if name in ("reshape", "transpose", "swapaxes", "flatten", "ravel", "squeeze", "repeat", "take", "diagonal"):
            m = getattr(a, name)

            def call(*args, **kw):
                args = [tuple(self._shape(x)) if isinstance(x, (tuple, list)) else x for x in args]
                kw.pop("order", None)
                return native(m, *args, **kw)
            return B("ndarray." + name, call)
        if name in ("argsort", "argmax", "argmin", "nonzero", "cumsum", "searchsorted"):
            return B("ndarray." + name, lambda *args, **kw: native(getattr(self._concrete(a), name), *args, **kw))
        if name == "ctypes":
            # arr.ctypes.data_as(T) / arr.ctypes.data: the pointer is modelled as a CPtr carrying the array itself (identity = address)
            return NSModel("ndarray.ctypes", {"data_as": B("ctypes.data_as", lambda t=None: CPtr(a)), "data": CPtr(a)})
        if not hasattr(np.ndarray, name):
            raise I.PyRaise(I.mk_exc("AttributeError", "'numpy.ndarray' object has no attribute '%s'" % name))
        raise I.Unsupported("ndarray attribute %s" % name)

    def scalar_attr(self, v, name):
        I = _imp()
        B = I.Builtin
        if name in ("shape",):
            return ()
        if name == "ndim":
            return 0
        if name == "size":
            return 1
        if name == "real":
            return v
        if name == "imag":
            return 0
        if name in ("conj", "conjugate", "copy", "item"):
            return B("scalar." + name, lambda: v)
        if name == "is_integer" and isinstance(v, (Q, int)):
            return B("float.is_integer", lambda: Q(v).denominator == 1)
        if name == "dtype":
            return DT_F8 if not isinstance(v, int) else DT_I8
        if name == "astype":
            return B("scalar.astype", lambda dt: v)
        if name in ("sum", "max", "min"):
            return B("scalar." + name, lambda *a, **k: v)
        if name in ("numerator", "denominator") and isinstance(v, (int, Q)):
            return getattr(v, name)
        raise I.Unsupported("scalar attribute %s" % name)


class CPtr(object):
    """A C pointer obtained from a numpy array: carries the array (so callee contracts can read / write its buffer)."""

    def __init__(self, arr):
        self.arr = arr

    def __repr__(self):
        return "<cptr to array %s>" % (self.arr.shape,)


def ctypes_model():
    I = _imp()
    B = I.Builtin
    ident = lambda name: B("ctypes." + name, lambda x=0: x)
    return NSModel("ctypes", {"c_void_p": ident("c_void_p"), "c_int": ident("c_int"), "c_double": ident("c_double"), "c_size_t": ident("c_size_t"),
                              "c_long": ident("c_long"), "c_char_p": ident("c_char_p"), "byref": B("ctypes.byref", lambda x: x),
                              "POINTER": B("ctypes.POINTER", lambda t: t), "cast": B("ctypes.cast", lambda p_, t_: p_), "Structure": I.Opaque("ctypes.Structure"), "CDLL": I.Opaque("ctypes.CDLL")})


class MaskedSel(object):
    """base[mask] with a symbolic boolean mask.  The selection is kept as (full array, mask): elementwise arithmetic
    stays a MaskedSel over the same mask, and `x[mask] = sel` becomes ite(mask, sel.full, x) element by element."""

    def __init__(self, base, idx):
        self.base = base
        self.idx = idx

    def _pairs(self):
        I = _imp()
        if isinstance(self.idx, tuple) or self.base.shape != self.idx.shape:
            raise I.Unsupported("reduction over a partially indexed masked selection")
        return [(I.to_term(m), as_exact(a)) for m, a in zip(self.idx.reshape(-1), self.base.reshape(-1))]

    @property
    def size(self):
        I = _imp()
        return fold(lambda x, y: x + y, [tm.mk_ite(m, tm.ONE, tm.ZERO) for m, _ in self._pairs()], tm.ZERO)

    def extreme(self, kind):
        """max / min over the selected elements; -inf / +inf when nothing is selected (numpy raises: callers guard with .size)."""
        ps = self._pairs()
        op = t_max if kind == "max" else t_min
        empty = tm.mk_neg(tm.var("inf")) if kind == "max" else tm.var("inf")

        def rec(i, cur):
            if i == len(ps):
                return empty if cur is None else cur
            m, a = ps[i]
            return t_ite(m, rec(i + 1, a if cur is None else op(cur, a)), rec(i + 1, cur))
        if len(ps) > 8:
            raise _imp().Unsupported("masked reduction over more than 8 elements")
        return rec(0, None)

    @staticmethod
    def same_mask(m1, m2):
        return isinstance(m1, np.ndarray) and isinstance(m2, np.ndarray) and m1.shape == m2.shape and all(
            x is y for x, y in zip(m1.reshape(-1), m2.reshape(-1)))

    @staticmethod
    def combine(interp, k, a, b):
        I = _imp()
        ms = [x for x in (a, b) if isinstance(x, MaskedSel)]
        if any(isinstance(m.idx, tuple) for m in ms):
            raise I.Unsupported("arithmetic on a tuple-indexed masked selection")
        if len(ms) == 2 and not MaskedSel.same_mask(ms[0].idx, ms[1].idx):
            raise I.Unsupported("arithmetic on selections through different symbolic masks")
        fa = a.base if isinstance(a, MaskedSel) else a
        fb = b.base if isinstance(b, MaskedSel) else b
        for x in (fa, fb):
            if isinstance(x, np.ndarray) and x.ndim > 0 and x.shape != ms[0].base.shape and not isinstance(x, MaskedSel):
                raise I.Unsupported("masked selection combined with an array of another shape")
        return MaskedSel(interp.binop(_BINOPS[k], fa, fb), ms[0].idx)


import ast as _ast
_BINOPS = {n: getattr(_ast, n)() for n in ("Add", "Sub", "Mult", "Div", "Pow", "Mod", "FloorDiv", "BitAnd", "BitOr", "BitXor")}
_OP = {"Lt": _ast.Lt(), "LtE": _ast.LtE(), "Gt": _ast.Gt(), "GtE": _ast.GtE(), "Eq": _ast.Eq(), "NotEq": _ast.NotEq()}


# ====================================================================== builtins
def install_builtins(interp):
    I = _imp()
    B = I.Builtin
    b = {}
    for n, c in I._EXC.items():
        b[n] = c
    b.update({"int": I.TYPE_INT, "float": I.TYPE_FLOAT, "bool": I.TYPE_BOOL, "str": I.TYPE_STR,
              "list": I.TYPE_LIST, "tuple": I.TYPE_TUPLE, "dict": I.TYPE_DICT, "set": I.TYPE_SET,
              "object": I.TYPE_OBJECT, "slice": I.TYPE_SLICE, "frozenset": I.TYPE_SET, "bytes": I.TYPE_BYTES,
              "None": None, "True": True, "False": False, "NotImplemented": I.Opaque("NotImplemented"),
              "Ellipsis": Ellipsis, "__debug__": True})

    def construct(tok, args, kwargs):
        if tok is I.TYPE_INT:
            if not args:
                return 0
            x = args[0]
            if isinstance(x, str):
                try:
                    return int(x, *args[1:])
                except ValueError as e:
                    raise I.PyRaise(I.mk_exc("ValueError", str(e)))
            if isinstance(x, (int, np.integer)):
                return int(x)
            if isinstance(x, Q):
                return int(x)   # truncation toward zero, as Python
            if isinstance(x, T):
                if x.op == "c":
                    return int(x.args[0])
                if x.op == "v" and x.args[1] == "I":
                    return x
                return tm.mk_fn("trunc", x)
            if isinstance(x, np.ndarray) and x.size == 1:
                return construct(tok, [as_exact(x.reshape(-1)[0])], {})
            raise I.PyRaise(I.mk_exc("TypeError", "int() argument"))
        if tok is I.TYPE_FLOAT:
            if not args:
                return Q(0)
            x = args[0]
            if isinstance(x, str):
                try:
                    return as_exact(float(x))
                except ValueError as e:
                    raise I.PyRaise(I.mk_exc("ValueError", str(e)))
            if isinstance(x, bool):
                return Q(int(x))
            if isinstance(x, (int, np.integer)):
                return Q(int(x))
            if isinstance(x, (Q, T)):
                return x
            if isinstance(x, np.ndarray) and x.size == 1:
                return as_exact(x.reshape(-1)[0])
            raise I.PyRaise(I.mk_exc("TypeError", "float() argument must be a string or a real number"))
        if tok is I.TYPE_BOOL:
            return interp.truth(args[0]) if args else False
        if tok is I.TYPE_STR:
            return to_str(args[0]) if args else ""
        if tok is I.TYPE_LIST:
            return list(interp.iterate(args[0])) if args else []
        if tok is I.TYPE_TUPLE:
            return tuple(interp.iterate(args[0])) if args else ()
        if tok is I.TYPE_DICT:
            d = {}
            if args:
                src = args[0]
                if isinstance(src, dict):
                    d.update(src)
                else:
                    for kv in interp.iterate(src):
                        k, v = interp.iterate(kv)
                        d[interp.hashable(k)] = v
            d.update(kwargs)
            return d
        if tok is I.TYPE_SET:
            return set(interp.hashable(x) for x in interp.iterate(args[0])) if args else set()
        if tok is I.TYPE_SLICE:
            return slice(*args)
        if tok is I.TYPE_OBJECT:
            return I.Opaque("object()")
        if tok is I.TYPE_NDARRAY:
            # np.ndarray(shape, dtype=..., buffer=buf): uninitialised array, or a C-ordered view on the leading part of buf
            shape = interp.np._shape(args[0] if args else kwargs["shape"])
            buf = kwargs.get("buffer")
            if buf is None:
                return interp.np.empty(shape, kwargs.get("dtype"))
            n = int(np.prod(shape)) if shape else 1
            flat = buf.reshape(-1)
            if flat.size < n:
                raise I.PyRaise(I.mk_exc("TypeError", "buffer is too small for requested array"))
            if not np.shares_memory(flat, buf):
                raise I.Unsupported("np.ndarray(buffer=non-contiguous array)")
            return flat[:n].reshape(shape)
        raise I.Unsupported("constructor %s" % tok.name)
    b["__construct__"] = construct

    def to_str(x):
        if isinstance(x, str):
            return x
        if isinstance(x, Q):
            return repr(float(x))
        if isinstance(x, T):
            return tm.show(x, 80)
        if isinstance(x, (list, tuple)):
            inner = ", ".join(to_str(y) if not isinstance(y, str) else repr(y) for y in x)
            return "[%s]" % inner if isinstance(x, list) else "(%s)" % inner
        if isinstance(x, I.ExcV):
            return ", ".join(to_str(a) for a in x.args)
        return str(x)
    b["__to_str__"] = to_str
    b["str"] = I.TYPE_STR
    b["repr"] = B("repr", lambda x: repr(x) if isinstance(x, str) else to_str(x))
    b["format"] = B("format", lambda x, spec="": to_str(x))

    def py_len(x):
        if isinstance(x, I.Obj):
            f, owner = x.cls.lookup("__len__")
            if owner is None:
                raise I.PyRaise(I.mk_exc("TypeError", "object of type %s has no len()" % x.cls.name))
            return interp.call_function(f, [x], {})
        if isinstance(x, np.ndarray):
            if x.ndim == 0:
                raise I.PyRaise(I.mk_exc("TypeError", "len() of unsized object"))
            return x.shape[0]
        if isinstance(x, (list, tuple, dict, str, set, frozenset, range)):
            return len(x)
        if isinstance(x, (int, Q, T, bool)) or x is None:
            raise I.PyRaise(I.mk_exc("TypeError", "object of type %s has no len()" % type(x).__name__))
        raise I.Unsupported("len of %r" % type(x).__name__)
    b["len"] = B("len", py_len)

    def py_range(*a):
        vals = []
        for x in a:
            if isinstance(x, Q) and x.denominator == 1:
                x = int(x)
            if isinstance(x, np.integer):
                x = int(x)
            if isinstance(x, T):
                raise I.Unsupported("range over a symbolic bound")
            if not isinstance(x, int):
                raise I.PyRaise(I.mk_exc("TypeError", "range() integer argument expected"))
            vals.append(x)
        return range(*vals)
    b["range"] = B("range", py_range)
    b["enumerate"] = B("enumerate", lambda it, start=0: [(i + start, x) for i, x in enumerate(interp.iterate(it))])
    b["zip"] = B("zip", lambda *its, **kw: list(zip(*[interp.iterate(i) for i in its])))
    b["reversed"] = B("reversed", lambda it: list(reversed(interp.iterate(it))))
    b["iter"] = B("iter", lambda it: interp.iterate(it))
    b["next"] = B("next", lambda it, *d: it.pop(0) if it else (d[0] if d else (_ for _ in ()).throw(I.PyRaise(I.mk_exc("StopIteration")))))

    def py_sorted(it, key=None, reverse=False):
        xs = interp.iterate(it)
        if key is not None:
            return sorted(xs, key=lambda x: interp.call(key, [x], {}), reverse=reverse)
        return sorted(xs, reverse=reverse)
    b["sorted"] = B("sorted", py_sorted)
    b["map"] = B("map", lambda f, *its: [interp.call(f, list(a), {}) for a in zip(*[interp.iterate(i) for i in its])])
    b["filter"] = B("filter", lambda f, it: [x for x in interp.iterate(it) if interp.truth(interp.call(f, [x], {}) if f is not None else x)])

    def py_sum(it, start=0):
        acc = start
        for x in interp.iterate(it):
            acc = interp.binop(_ast.Add(), acc, x)
        return acc
    b["sum"] = B("sum", py_sum)

    def py_minmax(kind):
        def f(*args, **kw):
            xs = interp.iterate(args[0]) if len(args) == 1 else list(args)
            if not xs:
                if "default" in kw:
                    return kw["default"]
                raise I.PyRaise(I.mk_exc("ValueError", "%s() arg is an empty sequence" % kind))
            return fold(t_max if kind == "max" else t_min, [as_exact(x) for x in xs])
        return f
    b["max"] = B("max", py_minmax("max"))
    b["min"] = B("min", py_minmax("min"))
    b["abs"] = B("abs", lambda x: interp.np._ew_out(t_unary("abs"), None, x))
    b["round"] = B("round", lambda x, n=None: (int(round(x)) if n is None else round(x, n)) if isinstance(x, (int, Q)) else tm.mk_fn("round", x))
    b["pow"] = B("pow", lambda a, c: interp.binop(_ast.Pow(), a, c))
    b["divmod"] = B("divmod", lambda a, c: (interp.binop(_ast.FloorDiv(), a, c), interp.binop(_ast.Mod(), a, c)))
    b["all"] = B("all", lambda it: all(interp.truth(x) for x in interp.iterate(it)))
    b["any"] = B("any", lambda it: any(interp.truth(x) for x in interp.iterate(it)))
    b["id"] = B("id", lambda x: id(x))
    b["hash"] = B("hash", lambda x: hash(interp.hashable(x)))
    b["callable"] = B("callable", lambda x: isinstance(x, (I.FuncV, I.BoundMethod, I.Builtin, I.ClassV)))
    b["print"] = B("print", lambda *a, **k: None)
    b["open"] = B("open", lambda name, mode="r", **k: I.FileV(name, mode))

    def isinstance_(v, spec):
        if isinstance(spec, tuple):
            return any(isinstance_(v, s) for s in spec)
        if isinstance(spec, I.TypeTok):
            return bool(spec.pred(v))
        if isinstance(spec, I.ClassV):
            return isinstance(v, I.Obj) and spec in v.cls.mro()
        if isinstance(spec, I.ExcClass):
            return isinstance(v, I.ExcV) and spec.name in v.cls.mro_names()
        if isinstance(spec, DType):
            return False
        if isinstance(spec, I.Opaque):
            if isinstance(v, I.Obj):
                # instance of a repo class vs an external class: true iff the external class is among the bases
                return any(isinstance(bb, I.Opaque) and bb.name == spec.name for c in v.cls.mro() for bb in c.bases)
            return False
        raise I.Unsupported("isinstance against %r" % (spec,))
    b["isinstance"] = B("isinstance", isinstance_)

    def issubclass_(c, spec):
        if isinstance(spec, tuple):
            return any(issubclass_(c, s) for s in spec)
        if isinstance(c, I.ClassV) and isinstance(spec, I.ClassV):
            return spec in c.mro()
        if isinstance(c, I.ExcClass) and isinstance(spec, I.ExcClass):
            return spec.name in c.mro_names()
        return False
    b["issubclass"] = B("issubclass", issubclass_)

    def type_(v):
        if isinstance(v, I.Obj):
            return v.cls
        if isinstance(v, I.ExcV):
            return v.cls
        for tok in (I.TYPE_BOOL, I.TYPE_INT, I.TYPE_FLOAT, I.TYPE_STR, I.TYPE_LIST, I.TYPE_TUPLE, I.TYPE_DICT, I.TYPE_SET, I.TYPE_NDARRAY, I.TYPE_NONE):
            if tok.pred(v):
                return tok
        raise I.Unsupported("type() of %r" % type(v).__name__)
    b["type"] = B("type", type_)

    def hasattr_(v, name):
        try:
            interp.getattr(v, name)
            return True
        except I.PyRaise:
            return False
    b["hasattr"] = B("hasattr", hasattr_)

    def getattr_(v, name, *default):
        try:
            return interp.getattr(v, name)
        except I.PyRaise:
            if default:
                return default[0]
            raise
    b["getattr"] = B("getattr", getattr_)
    b["setattr"] = B("setattr", lambda v, n, x: interp.setattr(v, n, x))

    def dir_(v):
        names = set()
        if isinstance(v, I.Obj):
            names.update(v.fields)
            for c in v.cls.mro():
                names.update(c.ns)
        elif isinstance(v, I.ClassV):
            for c in v.mro():
                names.update(c.ns)
        else:
            raise I.Unsupported("dir() of %s" % type(v).__name__)
        return sorted(names)
    b["dir"] = B("dir", dir_)
    b["property"] = B("property", lambda f: f)
    b["staticmethod"] = B("staticmethod", lambda f: f)
    b["classmethod"] = B("classmethod", lambda f: f)
    b["vars"] = B("vars", lambda o: o.fields)

    def container_attr(v, name):
        if isinstance(v, list):
            if name == "append":
                return B("list.append", lambda x: v.append(x))
            if name == "extend":
                return B("list.extend", lambda it: v.extend(interp.iterate(it)))
            if name == "insert":
                return B("list.insert", lambda i, x: v.insert(i, x))
            if name == "pop":
                return B("list.pop", lambda *a: _pop(v, *a))
            if name == "index":
                return B("list.index", lambda x: _index(v, x))
            if name == "count":
                return B("list.count", lambda x: sum(1 for y in v if interp.equal(x, y) is True))
            if name == "copy":
                return B("list.copy", lambda: list(v))
            if name == "sort":
                return B("list.sort", lambda key=None, reverse=False: v.sort(key=(lambda x: interp.call(key, [x], {})) if key else None, reverse=reverse))
            if name == "reverse":
                return B("list.reverse", lambda: v.reverse())
            if name == "remove":
                return B("list.remove", lambda x: v.remove(x))
            if name == "clear":
                return B("list.clear", lambda: v.clear())
        if isinstance(v, tuple):
            if name == "index":
                return B("tuple.index", lambda x: _index(v, x))
            if name == "count":
                return B("tuple.count", lambda x: sum(1 for y in v if interp.equal(x, y) is True))
        if isinstance(v, dict):
            if name == "get":
                return B("dict.get", lambda k, d=None: v.get(interp.hashable(k), d))
            if name == "keys":
                return B("dict.keys", lambda: list(v.keys()))
            if name == "values":
                return B("dict.values", lambda: list(v.values()))
            if name == "items":
                return B("dict.items", lambda: [(k, x) for k, x in v.items()])
            if name == "update":
                return B("dict.update", lambda o=None, **kw: (v.update(o or {}), v.update(kw)) and None)
            if name == "pop":
                return B("dict.pop", lambda k, *d: _dpop(v, interp.hashable(k), *d))
            if name == "setdefault":
                return B("dict.setdefault", lambda k, d=None: v.setdefault(interp.hashable(k), d))
            if name == "copy":
                return B("dict.copy", lambda: dict(v))
        if isinstance(v, (set, frozenset)):
            if name == "add":
                return B("set.add", lambda x: v.add(interp.hashable(x)))
            if name in ("union", "intersection", "difference", "issubset", "issuperset"):
                return B("set." + name, lambda o: getattr(v, name)(set(interp.hashable(x) for x in interp.iterate(o))))
        if isinstance(v, str):
            if name in ("format",):
                return B("str.format", lambda *a, **k: _fmt(v, a, k))
            if name in ("lower", "upper", "strip", "split", "startswith", "endswith", "join", "replace", "find",
                        "isdigit", "lstrip", "rstrip", "count", "index", "rsplit", "title", "isalpha", "zfill"):
                return B("str." + name, lambda *a: _strcall(v, name, a))
        if isinstance(v, slice):
            if name in ("start", "stop", "step"):
                return getattr(v, name)
            if name == "indices":
                return B("slice.indices", lambda n: v.indices(n))
        if isinstance(v, range) and name in ("start", "stop", "step"):
            return getattr(v, name)
        raise I.PyRaise(I.mk_exc("AttributeError", "%s object has no attribute %s" % (type(v).__name__, name)))

    def _strcall(v, name, a):
        try:
            if name == "join":
                return v.join([to_str(x) for x in interp.iterate(a[0])])
            return getattr(v, name)(*a)
        except (ValueError, TypeError) as e:
            raise I.PyRaise(I.mk_exc(type(e).__name__, str(e)))

    def _fmt(v, a, k):
        try:
            return v.format(*[to_str(x) if isinstance(x, (Q, T, I.Obj)) else x for x in a], **{kk: to_str(x) for kk, x in k.items()})
        except Exception:
            return v

    def _pop(v, *a):
        try:
            return v.pop(*a)
        except IndexError:
            raise I.PyRaise(I.mk_exc("IndexError", "pop from empty list"))

    def _dpop(v, k, *d):
        if k in v:
            return v.pop(k)
        if d:
            return d[0]
        raise I.PyRaise(I.mk_exc("KeyError", k))

    def _index(v, x):
        for i, y in enumerate(v):
            if interp.equal(x, y) is True:
                return i
        raise I.PyRaise(I.mk_exc("ValueError", "%s is not in list" % to_str(x)))
    b["__container_attr__"] = container_attr
    return b
