"""Term layer of engine P: hash-consed symbolic terms over the reals/integers/booleans.

A term is immutable and unique per structure (hash-consing), so `is` is structural
equality.  Arithmetic operators are overloaded so that numpy object arrays of terms
broadcast and slice with numpy's own (real) semantics; `==` is *not* overloaded
(identity), equality atoms are built with mk_eq.

Ops
  c   (Fraction,)                 rational constant
  v   (name, sort)                variable, sort in R (real) I (int) B (bool)
  +   (t1..tn)    *  (t1..tn)
  ^   (base, exponent)            real power; sqrt(x) is x^(1/2)
  f   (name, t1..tk)              exp log erf abs gamma floor sign ... (uninterpreted beyond the rules below)
  ite (cond, a, b)
  <  <=  ==  (a, b)   and or (b1..bn)   not (b,)   T ()   F ()
"""
from fractions import Fraction as Q
import math

_TABLE = {}
_COUNTER = [0]


class T(object):
    __slots__ = ("op", "args", "id", "__weakref__")
    __array_priority__ = 1000.0

    def __new__(cls, op, args):
        key = (op, args)
        t = _TABLE.get(key)
        if t is None:
            t = object.__new__(cls)
            t.op = op
            t.args = args
            _COUNTER[0] += 1
            t.id = _COUNTER[0]
            _TABLE[key] = t
        return t

    def __hash__(self):
        return self.id

    def __reduce__(self):
        return (_rebuild, (self.op, self.args))

    # ---- arithmetic overloads (used by numpy object arrays and by contracts)
    def __add__(self, o):
        o = lift(o)
        return NotImplemented if o is None else mk_add(self, o)

    def __radd__(self, o):
        o = lift(o)
        return NotImplemented if o is None else mk_add(o, self)

    def __sub__(self, o):
        o = lift(o)
        return NotImplemented if o is None else mk_add(self, mk_neg(o))

    def __rsub__(self, o):
        o = lift(o)
        return NotImplemented if o is None else mk_add(o, mk_neg(self))

    def __mul__(self, o):
        o = lift(o)
        return NotImplemented if o is None else mk_mul(self, o)

    def __rmul__(self, o):
        o = lift(o)
        return NotImplemented if o is None else mk_mul(o, self)

    def __truediv__(self, o):
        o = lift(o)
        return NotImplemented if o is None else mk_div(self, o)

    def __rtruediv__(self, o):
        o = lift(o)
        return NotImplemented if o is None else mk_div(o, self)

    def __pow__(self, o):
        o = lift(o)
        return NotImplemented if o is None else mk_pow(self, o)

    def __rpow__(self, o):
        o = lift(o)
        return NotImplemented if o is None else mk_pow(o, self)

    def __neg__(self):
        return mk_neg(self)

    def __pos__(self):
        return self

    def __abs__(self):
        return mk_fn("abs", self)

    def __lt__(self, o):
        return mk_lt(self, lift(o))

    def __le__(self, o):
        return mk_le(self, lift(o))

    def __gt__(self, o):
        return mk_lt(lift(o), self)

    def __ge__(self, o):
        return mk_le(lift(o), self)

    def __and__(self, o):
        return mk_and(self, lift(o))

    def __rand__(self, o):
        return mk_and(lift(o), self)

    def __or__(self, o):
        return mk_or(self, lift(o))

    def __ror__(self, o):
        return mk_or(lift(o), self)

    def __invert__(self):
        return mk_not(self)

    def __bool__(self):
        if self.op == "T":
            return True
        if self.op == "F":
            return False
        raise SymbolicBool(self)

    # numpy ufuncs on object arrays call methods named like the ufunc
    def sqrt(self):
        return mk_pow(self, const(Q(1, 2)))

    def exp(self):
        return mk_fn("exp", self)

    def log(self):
        return mk_fn("log", self)

    def conjugate(self):
        return self

    def __repr__(self):
        return show(self)

    @property
    def is_bool(self):
        return self.op in ("<", "<=", "==", "and", "or", "not", "T", "F") or (
            self.op == "v" and self.args[1] == "B") or (self.op == "ite" and self.args[1].is_bool)

    @property
    def is_const(self):
        return self.op == "c"

    @property
    def value(self):
        return self.args[0]


def _rebuild(op, args):
    return T(op, args)


class SymbolicBool(Exception):
    """Raised when Python asks for the truth value of a non-constant boolean term."""

    def __init__(self, term):
        Exception.__init__(self, "symbolic truth value: %s" % show(term, 200))
        self.term = term


TRUE = T("T", ())
FALSE = T("F", ())


def const(x):
    if isinstance(x, bool):
        return TRUE if x else FALSE
    if isinstance(x, float):
        if x != x or x in (float("inf"), float("-inf")):
            if x == float("inf"):
                return var("inf")
            if x == float("-inf"):
                return mk_neg(var("inf"))
            return var("nan")
        x = Q(repr(float(x)))
    return T("c", (Q(x),))


ZERO = const(0)
ONE = const(1)
MONE = const(-1)


def var(name, sort="R"):
    return T("v", (name, sort))


PI = var("pi")


def lift(x):
    """Python/numpy scalar -> term; returns None when x is not a scalar (e.g. an ndarray)."""
    if isinstance(x, T):
        return x
    if isinstance(x, (bool, int, Q, float)):
        return const(x)
    try:
        import numpy as np
        if isinstance(x, np.generic):
            return const(x.item())
    except ImportError:  # pragma: no cover
        pass
    return None


def mk_add(*ts):
    flat = []
    c = Q(0)
    for t in ts:
        if t.op == "+":
            for a in t.args:
                if a.op == "c":
                    c += a.args[0]
                else:
                    flat.append(a)
        elif t.op == "c":
            c += t.args[0]
        else:
            flat.append(t)
    if c != 0:
        flat.append(const(c))
    if not flat:
        return ZERO
    if len(flat) == 1:
        return flat[0]
    return T("+", tuple(flat))


def mk_mul(*ts):
    flat = []
    c = Q(1)
    for t in ts:
        if t.op == "*":
            for a in t.args:
                if a.op == "c":
                    c *= a.args[0]
                else:
                    flat.append(a)
        elif t.op == "c":
            c *= t.args[0]
        else:
            flat.append(t)
    if c == 0:
        return ZERO
    if c != 1:
        flat.insert(0, const(c))
    if not flat:
        return ONE
    if len(flat) == 1:
        return flat[0]
    return T("*", tuple(flat))


def mk_neg(t):
    return mk_mul(MONE, t)


def mk_div(a, b):
    return mk_mul(a, mk_pow(b, MONE))


def mk_pow(b, e):
    if e.op == "c":
        ev = e.args[0]
        if ev == 1:
            return b
        if ev == 0:
            return ONE
        if b.op == "c" and ev.denominator == 1:
            bv = b.args[0]
            if bv != 0 or ev > 0:
                return const(bv ** int(ev))
        if b.op == "c" and b.args[0] == 1:
            return ONE
        if b.op == "c" and b.args[0] == 0 and ev > 0:
            return ZERO
    return T("^", (b, e))


def mk_sqrt(t):
    return mk_pow(t, const(Q(1, 2)))


def mk_fn(name, *args):
    if name == "abs" and args[0].op == "c":
        return const(abs(args[0].args[0]))
    if name == "exp" and args[0] is ZERO:
        return ONE
    if name == "log" and args[0] is ONE:
        return ZERO
    return T("f", (name,) + tuple(args))


def mk_fi(name, *args):
    """Integer-valued uninterpreted function / read of an integer array."""
    return T("fi", (name,) + tuple(args))


def mk_sum(bv, lo, hi, body):
    """sum_{bv = lo}^{hi-1} body   (bv: an integer variable term that occurs free in body only)."""
    if body is ZERO:
        return ZERO
    if bv not in subterms(body).values():
        return mk_mul(mk_add(hi, mk_neg(lo)), body)
    return T("sum", (bv, lo, hi, body))


def mk_ite(c, a, b):
    if c is TRUE:
        return a
    if c is FALSE:
        return b
    if a is b:
        return a
    return T("ite", (c, a, b))


def mk_lt(a, b):
    if a.op == "c" and b.op == "c":
        return const(a.args[0] < b.args[0])
    return T("<", (a, b))


def mk_le(a, b):
    if a.op == "c" and b.op == "c":
        return const(a.args[0] <= b.args[0])
    return T("<=", (a, b))


def mk_eq(a, b):
    if a is b:
        return TRUE
    if a.op == "c" and b.op == "c":
        return const(a.args[0] == b.args[0])
    if a.id > b.id:
        a, b = b, a
    return T("==", (a, b))


def mk_ne(a, b):
    return mk_not(mk_eq(a, b))


def mk_not(a):
    if a is TRUE:
        return FALSE
    if a is FALSE:
        return TRUE
    if a.op == "not":
        return a.args[0]
    if a.op == "<":
        return mk_le(a.args[1], a.args[0])
    if a.op == "<=":
        return mk_lt(a.args[1], a.args[0])
    return T("not", (a,))


def mk_and(*bs):
    flat = []
    for b in bs:
        if b is FALSE:
            return FALSE
        if b is TRUE:
            continue
        if b.op == "and":
            flat.extend(b.args)
        else:
            flat.append(b)
    flat = list(dict.fromkeys(flat))
    if not flat:
        return TRUE
    if len(flat) == 1:
        return flat[0]
    return T("and", tuple(flat))


def mk_or(*bs):
    flat = []
    for b in bs:
        if b is TRUE:
            return TRUE
        if b is FALSE:
            continue
        if b.op == "or":
            flat.extend(b.args)
        else:
            flat.append(b)
    flat = list(dict.fromkeys(flat))
    if not flat:
        return FALSE
    if len(flat) == 1:
        return flat[0]
    return T("or", tuple(flat))


def mk_max(a, b):
    return mk_ite(mk_lt(a, b), b, a)


def mk_min(a, b):
    return mk_ite(mk_lt(b, a), b, a)


def mk_implies(a, b):
    return mk_or(mk_not(a), b)


# ---------------------------------------------------------------- traversal

def subterms(t, seen=None):
    if seen is None:
        seen = {}
    stack = [t]
    while stack:
        u = stack.pop()
        if u.id in seen:
            continue
        seen[u.id] = u
        for a in u.args:
            if isinstance(a, T):
                stack.append(a)
    return seen


def free_vars(t):
    return sorted((u for u in subterms(t).values() if u.op == "v"), key=lambda u: u.args[0])


def ite_conditions(t):
    return [u.args[0] for u in sorted(subterms(t).values(), key=lambda u: u.id) if u.op == "ite"]


def substitute(t, mapping, cache=None):
    """mapping: dict term -> term (keys compared by identity)."""
    if cache is None:
        cache = {}

    def go(u):
        r = cache.get(u.id)
        if r is not None:
            return r
        if u in mapping:
            r = mapping[u]
        elif u.op in ("c", "v", "T", "F"):
            r = u
        else:
            r = rebuild(u.op, [go(a) if isinstance(a, T) else a for a in u.args])
        cache[u.id] = r
        return r

    return go(t)


def rebuild(op, args):
    if op == "+":
        return mk_add(*args)
    if op == "*":
        return mk_mul(*args)
    if op == "^":
        return mk_pow(*args)
    if op == "f":
        return mk_fn(*args)
    if op == "fi":
        return mk_fi(*args)
    if op == "sum":
        return mk_sum(*args)
    if op == "ite":
        return mk_ite(*args)
    if op == "<":
        return mk_lt(*args)
    if op == "<=":
        return mk_le(*args)
    if op == "==":
        return mk_eq(*args)
    if op == "and":
        return mk_and(*args)
    if op == "or":
        return mk_or(*args)
    if op == "not":
        return mk_not(*args)
    return T(op, tuple(args))


def drop_small_addends(t, eps=Q(1, 10 ** 16), count=None):
    """Assumption A2: a literal of magnitude <= eps added to another quantity is treated as 0.
    Returns the rewritten term; count (a list) collects the number of places."""
    cache = {}

    def go(u):
        r = cache.get(u.id)
        if r is not None:
            return r
        if u.op in ("c", "v", "T", "F"):
            r = u
        else:
            args = [go(a) if isinstance(a, T) else a for a in u.args]
            if u.op == "+":
                kept = []
                for a in args:
                    if a.op == "c" and 0 < abs(a.args[0]) <= eps:
                        if count is not None:
                            count.append(a.args[0])
                        continue
                    kept.append(a)
                args = kept
            r = rebuild(u.op, args)
        cache[u.id] = r
        return r

    return go(lift(t))


def assume_conditions(t, truth):
    """Resolve ite/booleans in t given truth: dict cond-term -> bool."""
    m = {}
    for c, v in truth.items():
        m[c] = TRUE if v else FALSE
        n = mk_not(c)
        if n is not c:
            m[n] = FALSE if v else TRUE
    return substitute(t, m)


# ---------------------------------------------------------------- differentiation

def diff(t, x, cache=None):
    """d t / d x for a variable term x (sum/product/chain rules; A7: ite guards are not differentiated)."""
    if cache is None:
        cache = {}

    def d(u):
        r = cache.get(u.id)
        if r is not None:
            return r
        op = u.op
        if u is x:
            r = ONE
        elif op in ("c", "v"):
            r = ZERO
        elif op == "+":
            r = mk_add(*[d(a) for a in u.args])
        elif op == "*":
            terms = []
            for i, a in enumerate(u.args):
                da = d(a)
                if da is ZERO:
                    continue
                terms.append(mk_mul(*(u.args[:i] + (da,) + u.args[i + 1:])))
            r = mk_add(*terms) if terms else ZERO
        elif op == "^":
            b, e = u.args
            db, de = d(b), d(e)
            if de is ZERO:
                r = ZERO if db is ZERO else mk_mul(e, mk_pow(b, mk_add(e, MONE)), db)
            else:
                r = mk_mul(u, mk_add(mk_mul(de, mk_fn("log", b)), mk_mul(e, db, mk_pow(b, MONE))))
        elif op == "f":
            name = u.args[0]
            a = u.args[1]
            da = d(a)
            if da is ZERO and all(d(z) is ZERO for z in u.args[2:]):
                r = ZERO
            elif name == "exp":
                r = mk_mul(u, da)
            elif name == "log":
                r = mk_mul(da, mk_pow(a, MONE))
            elif name == "erf":
                r = mk_mul(const(2), mk_pow(PI, const(Q(-1, 2))), mk_fn("exp", mk_neg(mk_mul(a, a))), da)
            elif name == "abs":
                r = mk_mul(mk_ite(mk_lt(a, ZERO), MONE, ONE), da)
            elif name == "sin":
                r = mk_mul(mk_fn("cos", a), da)
            elif name == "cos":
                r = mk_mul(MONE, mk_fn("sin", a), da)
            elif name == "tanh":
                r = mk_mul(mk_add(ONE, mk_neg(mk_mul(u, u))), da)
            else:
                # uninterpreted differentiable function: partial derivatives are fresh symbols D<k>name(args)
                parts = []
                for k, z in enumerate(u.args[1:]):
                    dz = d(z)
                    if dz is not ZERO:
                        parts.append(mk_mul(T("f", ("D%d_%s" % (k, name),) + u.args[1:]), dz))
                r = mk_add(*parts) if parts else ZERO
        elif op == "ite":
            r = mk_ite(u.args[0], d(u.args[1]), d(u.args[2]))
        elif op == "fi":
            r = ZERO
        elif op == "sum":
            r = mk_sum(u.args[0], u.args[1], u.args[2], d(u.args[3]))
        else:
            raise ValueError("cannot differentiate boolean term %s" % op)
        cache[u.id] = r
        return r

    return d(t)


# ---------------------------------------------------------------- numeric evaluation

def evaluate(t, env, mp=None):
    """Evaluate with env: dict name -> number.  mp: an mpmath context for high precision, else floats."""
    cache = {}
    if mp is None:
        conv = float
        fexp, flog, ferf, fgam = math.exp, math.log, math.erf, math.gamma
        pi = math.pi
    else:
        conv = lambda q: mp.mpf(q.numerator) / mp.mpf(q.denominator) if isinstance(q, Q) else mp.mpf(q)
        fexp, flog, ferf, fgam = mp.exp, mp.log, mp.erf, mp.gamma
        pi = mp.pi

    def ev(u):
        if u.id in cache:
            return cache[u.id]
        op = u.op
        if op == "c":
            r = conv(u.args[0])
        elif op == "v":
            name = u.args[0]
            if name in env:
                r = env[name]
                if not isinstance(r, bool):
                    r = conv(r) if isinstance(r, (Q, int)) else r
            elif name == "pi":
                r = pi
            elif name == "inf":
                r = float("inf") if mp is None else mp.inf
            else:
                raise KeyError(name)
        elif op == "+":
            r = ev(u.args[0])
            for a in u.args[1:]:
                r = r + ev(a)
        elif op == "*":
            r = ev(u.args[0])
            for a in u.args[1:]:
                r = r * ev(a)
        elif op == "^":
            b, e = ev(u.args[0]), ev(u.args[1])
            ea = u.args[1]
            if ea.op == "c" and ea.args[0].denominator == 1:
                r = b ** int(ea.args[0])
            else:
                r = b ** e
        elif op == "f":
            name = u.args[0]
            a = [ev(z) for z in u.args[1:]]
            if name == "exp":
                r = fexp(a[0])
            elif name == "log":
                r = flog(a[0])
            elif name == "erf":
                r = ferf(a[0])
            elif name == "abs":
                r = abs(a[0])
            elif name == "gamma":
                r = fgam(a[0])
            elif name == "floor":
                r = math.floor(a[0])
            elif name == "sin":
                r = math.sin(a[0]) if mp is None else mp.sin(a[0])
            elif name == "cos":
                r = math.cos(a[0]) if mp is None else mp.cos(a[0])
            elif name == "tanh":
                r = math.tanh(a[0]) if mp is None else mp.tanh(a[0])
            else:
                key = ("fn", name)
                if key in env:
                    r = env[key](*a)
                else:
                    # an uninterpreted function symbol: any interpretation is admissible for a counter-model;
                    # use a fixed smooth one derived from the symbol's name (independent per symbol)
                    import zlib
                    k0 = (zlib.crc32(name.encode()) % 1000) / 100.0
                    acc = conv(Q(int(k0 * 100), 100))
                    for i_, z in enumerate(a):
                        acc = acc + conv(Q(37 * (i_ + 1), 100)) * z
                    r = conv(Q(13, 10)) + (math.sin(acc) if mp is None else mp.sin(acc))
        elif op == "ite":
            r = ev(u.args[1]) if ev(u.args[0]) else ev(u.args[2])
        elif op == "fi":
            name = u.args[0]
            a = [ev(z) for z in u.args[1:]]
            key = ("fn", name)
            if key in env:
                r = env[key](*[int(x) for x in a])
            else:
                import zlib
                r = (zlib.crc32(name.encode()) + sum(7 * (i_ + 1) * int(x) for i_, x in enumerate(a))) % 5
        elif op == "sum":
            bv, lo, hi, body = u.args
            lo_, hi_ = int(ev(lo)), int(ev(hi))
            r = conv(Q(0))
            for k_ in range(lo_, hi_):
                env2 = dict(env)
                env2[bv.args[0]] = k_
                r = r + evaluate(body, env2, mp)
        elif op == "<":
            r = ev(u.args[0]) < ev(u.args[1])
        elif op == "<=":
            r = ev(u.args[0]) <= ev(u.args[1])
        elif op == "==":
            a, b = ev(u.args[0]), ev(u.args[1])
            r = a == b
        elif op == "and":
            r = all(ev(a) for a in u.args)
        elif op == "or":
            r = any(ev(a) for a in u.args)
        elif op == "not":
            r = not ev(u.args[0])
        elif op == "T":
            r = True
        elif op == "F":
            r = False
        else:
            raise ValueError(op)
        cache[u.id] = r
        return r

    return ev(t)


# ---------------------------------------------------------------- printing

def show(t, limit=400):
    out = []
    budget = [limit]

    def w(s):
        out.append(s)
        budget[0] -= len(s)

    def go(u, prec=0):
        if budget[0] < 0:
            return
        op = u.op
        if op == "c":
            q = u.args[0]
            s = str(q.numerator) if q.denominator == 1 else "%d/%d" % (q.numerator, q.denominator)
            w("(%s)" % s if (q < 0 or q.denominator != 1) and prec > 0 else s)
        elif op == "v":
            w(u.args[0])
        elif op in ("+", "*"):
            if prec > (1 if op == "+" else 2):
                w("(")
            for i, a in enumerate(u.args):
                if i:
                    w(" + " if op == "+" else "*")
                go(a, 1 if op == "+" else 2)
            if prec > (1 if op == "+" else 2):
                w(")")
        elif op == "^":
            go(u.args[0], 3)
            w("^")
            go(u.args[1], 3)
        elif op == "f":
            w(u.args[0] + "(")
            for i, a in enumerate(u.args[1:]):
                if i:
                    w(", ")
                go(a)
            w(")")
        elif op == "fi":
            w(u.args[0] + "[")
            for i, a in enumerate(u.args[1:]):
                if i:
                    w(", ")
                go(a)
            w("]")
        elif op == "sum":
            w("sum(")
            go(u.args[0])
            w("=")
            go(u.args[1])
            w("..")
            go(u.args[2])
            w(": ")
            go(u.args[3])
            w(")")
        elif op == "ite":
            w("ite(")
            go(u.args[0])
            w(", ")
            go(u.args[1])
            w(", ")
            go(u.args[2])
            w(")")
        elif op in ("<", "<=", "=="):
            w("(")
            go(u.args[0])
            w(" %s " % op)
            go(u.args[1])
            w(")")
        elif op in ("and", "or"):
            w("(")
            for i, a in enumerate(u.args):
                if i:
                    w(" %s " % op)
                go(a)
            w(")")
        elif op == "not":
            w("not ")
            go(u.args[0], 3)
        elif op == "T":
            w("true")
        elif op == "F":
            w("false")

    go(t)
    s = "".join(out)
    return s if len(s) <= limit else s[:limit] + "..."
