"""Engine P: symbolic interpreter over the Python AST of the real repository source.

The source of every function is re-parsed from the repository on every run (ast.parse of the file on
disk); nothing is copied.  Values are Python ints / Fractions / strs / lists / dicts, symbolic scalar
terms (pyvc.terms.T), numpy *object* arrays whose elements are terms (so views, slicing, broadcasting,
fancy indexing and in-place updates are numpy's own), and records for instances of repository classes.

Path splitting: a branch on a non-constant boolean term forks; forks are explored depth-first by
re-execution with a decision trace (the interpreter is deterministic).  Infeasible sides are pruned
with z3 under the hypotheses of the obligation.

What the extraction drops (exhaustive): docstrings, type annotations, decorators other than
property/classmethod/staticmethod/abstractmethod(+setter), `print`, `logger.*`, `warnings.warn`.
`assert` is kept: a failing assert ends the path with AssertionError.
"""
import ast
import operator
import os
from fractions import Fraction as Q

import numpy as np

from . import terms as tm
from .terms import T, SymbolicBool


class Unsupported(Exception):
    """The code left the supported subset (reported as 'undecided', never as a violation)."""


class PyRaise(Exception):
    """A Python-level exception raised by the interpreted program."""

    def __init__(self, exc):
        Exception.__init__(self, "%s" % (exc,))
        self.exc = exc


class _Return(Exception):
    def __init__(self, value):
        self.value = value


class _Break(Exception):
    pass


class _Continue(Exception):
    pass


class PathLimit(Exception):
    pass


# ------------------------------------------------------------------ value kinds
class ExcClass(object):
    def __init__(self, name, base=None):
        self.name = name
        self.base = base

    def mro_names(self):
        c, out = self, []
        while c is not None:
            out.append(c.name)
            c = c.base
        return out

    def __repr__(self):
        return "<exc %s>" % self.name


class ExcV(object):
    def __init__(self, cls, args):
        self.cls = cls
        self.args = args

    def __repr__(self):
        return "%s(%s)" % (self.cls.name, ", ".join(str(a) for a in self.args)[:120])


_EXC = {}
for _n, _b in [("BaseException", None), ("Exception", "BaseException"), ("ValueError", "Exception"),
               ("RuntimeError", "Exception"), ("NotImplementedError", "RuntimeError"),
               ("AssertionError", "Exception"), ("KeyError", "LookupError"), ("IndexError", "LookupError"),
               ("LookupError", "Exception"), ("TypeError", "Exception"), ("AttributeError", "Exception"),
               ("ZeroDivisionError", "ArithmeticError"), ("ArithmeticError", "Exception"),
               ("ImportError", "Exception"), ("ModuleNotFoundError", "ImportError"),
               ("StopIteration", "Exception"), ("OSError", "Exception"), ("FileNotFoundError", "OSError"),
               ("NameError", "Exception"), ("Warning", "Exception"), ("UserWarning", "Warning"),
               ("DeprecationWarning", "Warning"), ("FloatingPointError", "ArithmeticError"),
               ("OverflowError", "ArithmeticError"), ("MemoryError", "Exception")]:
    _EXC[_n] = ExcClass(_n, None)
for _n, _b in [("Exception", "BaseException"), ("ValueError", "Exception"), ("RuntimeError", "Exception"),
               ("NotImplementedError", "RuntimeError"), ("AssertionError", "Exception"),
               ("KeyError", "LookupError"), ("IndexError", "LookupError"), ("LookupError", "Exception"),
               ("TypeError", "Exception"), ("AttributeError", "Exception"),
               ("ZeroDivisionError", "ArithmeticError"), ("ArithmeticError", "Exception"),
               ("ImportError", "Exception"), ("ModuleNotFoundError", "ImportError"),
               ("StopIteration", "Exception"), ("OSError", "Exception"), ("FileNotFoundError", "OSError"),
               ("NameError", "Exception"), ("Warning", "Exception"), ("UserWarning", "Warning"),
               ("DeprecationWarning", "Warning"), ("FloatingPointError", "ArithmeticError"),
               ("OverflowError", "ArithmeticError"), ("MemoryError", "Exception")]:
    _EXC[_n].base = _EXC[_b]


def mk_exc(name, *args):
    return ExcV(_EXC[name], args)


class Opaque(object):
    """An external object the interpreter knows nothing about."""

    def __init__(self, name):
        self.name = name

    def __repr__(self):
        return "<opaque %s>" % self.name


class FileV(object):
    """A file handle of the modelled file system (interp.fs: name -> stored value); used with assumed
    contracts for yaml/joblib dump/load."""

    def __init__(self, name, mode):
        self.name = name
        self.mode = mode

    def __repr__(self):
        return "<file %r %s>" % (self.name, self.mode)


class ModuleV(object):
    def __init__(self, name, path=None):
        self.name = name
        self.path = path
        self.ns = {}
        self.loaded = False

    def __repr__(self):
        return "<module %s>" % self.name


class FuncV(object):
    def __init__(self, node, env, module, owner=None, name=None):
        self.node = node
        self.env = env          # enclosing Env (closure)
        self.module = module
        self.owner = owner      # ClassV for methods
        self.name = name or getattr(node, "name", "<lambda>")
        self.defaults = []
        self.kw_defaults = {}
        self.kind = "function"  # or property/classmethod/staticmethod
        self.setter = None
        self.memo = None        # dict for functools.lru_cache / cache decorated functions: the SAME result object is returned for equal arguments

    @property
    def qualname(self):
        if self.owner is not None:
            return "%s:%s.%s" % (self.module.name, self.owner.name, self.name)
        return "%s:%s" % (self.module.name, self.name)

    def __repr__(self):
        return "<function %s>" % self.qualname


class ClassV(object):
    def __init__(self, name, bases, module):
        self.name = name
        self.bases = bases
        self.module = module
        self.ns = {}

    def mro(self):
        """C3 linearisation over the repository base classes (external bases are ignored)."""
        for b in self.bases:
            if isinstance(b, Opaque) and b.name.startswith("ciderpress."):
                # a repository class whose definition could not be interpreted: attribute lookups through it would silently skip its members
                raise Unsupported("base class of %s could not be interpreted: %s" % (self.name, b.name[:200]))
        bases = [b for b in self.bases if isinstance(b, ClassV)]
        seqs = [list(b.mro()) for b in bases] + [list(bases)]
        res = [self]
        while True:
            seqs = [s for s in seqs if s]
            if not seqs:
                return res
            for s in seqs:
                cand = s[0]
                if not any(cand in t[1:] for t in seqs):
                    break
            else:
                raise Unsupported("inconsistent MRO for %s" % self.name)
            res.append(cand)
            for s in seqs:
                if s and s[0] is cand:
                    del s[0]

    def lookup(self, name, after=None):
        m = self.mro()
        if after is not None:
            m = m[m.index(after) + 1:]
        for c in m:
            if name in c.ns:
                return c.ns[name], c
        return None, None

    def __repr__(self):
        return "<class %s>" % self.name


class Obj(object):
    def __init__(self, cls):
        self.cls = cls
        self.fields = {}

    def __repr__(self):
        return "<%s object>" % self.cls.name


class BoundMethod(object):
    def __init__(self, self_v, func):
        self.self_v = self_v
        self.func = func


class Builtin(object):
    def __init__(self, name, fn, needs_interp=False):
        self.name = name
        self.fn = fn
        self.needs_interp = needs_interp

    def __repr__(self):
        return "<builtin %s>" % self.name


class SuperV(object):
    def __init__(self, obj, after_cls, start_cls):
        self.obj = obj
        self.after_cls = after_cls
        self.start_cls = start_cls


class Env(object):
    __slots__ = ("vars", "parent", "globals_decl")

    def __init__(self, parent=None, vars=None):
        self.vars = vars if vars is not None else {}
        self.parent = parent
        self.globals_decl = None

    def lookup(self, name):
        e = self
        while e is not None:
            if name in e.vars:
                return e.vars[name]
            e = e.parent
        raise KeyError(name)


# type tokens
class TypeTok(object):
    def __init__(self, name, pred):
        self.name = name
        self.pred = pred

    def __repr__(self):
        return "<type %s>" % self.name


def _is_real_scalar(v):
    return isinstance(v, Q) or (isinstance(v, T) and not v.is_bool and not (v.op == "v" and v.args[1] == "I"))


def _is_int_scalar(v):
    return (isinstance(v, (int, np.integer)) and not isinstance(v, bool)) or (
        isinstance(v, T) and v.op == "v" and v.args[1] == "I")


TYPE_INT = TypeTok("int", lambda v: _is_int_scalar(v) or isinstance(v, bool))
TYPE_FLOAT = TypeTok("float", _is_real_scalar)
TYPE_BOOL = TypeTok("bool", lambda v: isinstance(v, bool) or (isinstance(v, T) and v.is_bool))
TYPE_STR = TypeTok("str", lambda v: isinstance(v, str))
TYPE_BYTES = TypeTok("bytes", lambda v: isinstance(v, bytes))
TYPE_LIST = TypeTok("list", lambda v: isinstance(v, list))
TYPE_TUPLE = TypeTok("tuple", lambda v: isinstance(v, tuple))
TYPE_DICT = TypeTok("dict", lambda v: isinstance(v, dict))
TYPE_SET = TypeTok("set", lambda v: isinstance(v, (set, frozenset)))
TYPE_NDARRAY = TypeTok("ndarray", lambda v: isinstance(v, np.ndarray))
TYPE_SLICE = TypeTok("slice", lambda v: isinstance(v, slice))
TYPE_OBJECT = TypeTok("object", lambda v: True)
TYPE_NONE = TypeTok("NoneType", lambda v: v is None)
TYPE_NUMBER = TypeTok("Number", lambda v: _is_real_scalar(v) or _is_int_scalar(v))


def to_term(v):
    t = tm.lift(v)
    if t is None:
        raise Unsupported("not a scalar: %r" % (type(v),))
    return t


def is_symbolic_array(a):
    return isinstance(a, np.ndarray) and a.dtype == object


def obj_array(a):
    """ndarray (any dtype) -> object array of exact values (ints stay ints, floats -> Fractions)."""
    if a.dtype == object:
        return a
    out = np.empty(a.shape, dtype=object)
    flat = out.reshape(-1) if out.size else out
    if a.dtype.kind == "f":
        for i, x in enumerate(a.reshape(-1)):
            flat[i] = Q(repr(float(x)))
    elif a.dtype.kind == "b":
        for i, x in enumerate(a.reshape(-1)):
            flat[i] = tm.TRUE if x else tm.FALSE
    else:
        for i, x in enumerate(a.reshape(-1)):
            flat[i] = int(x)
    return out


def elementwise(fn, *arrs):
    """Apply fn over broadcast object arrays / scalars; returns object array or scalar."""
    if not any(isinstance(a, np.ndarray) for a in arrs):
        return fn(*arrs)
    arrs = [obj_array(a) if isinstance(a, np.ndarray) else a for a in arrs]
    bs = np.broadcast(*arrs)
    out = np.empty(bs.shape, dtype=object)
    if out.size:
        flat = out.reshape(-1)
        for i, vals in enumerate(bs):
            flat[i] = fn(*vals)
    return out


def const_bool(v):
    """True/False if v is a concrete truth value, else None."""
    if isinstance(v, T):
        if v is tm.TRUE:
            return True
        if v is tm.FALSE:
            return False
        if v.op == "c":
            return v.args[0] != 0
        return None
    if isinstance(v, np.ndarray):
        if v.dtype == object:
            if v.size == 1:
                return const_bool(v.reshape(-1)[0])
            raise PyRaise(mk_exc("ValueError", "truth value of an array is ambiguous"))
        return bool(v)
    if isinstance(v, Obj):
        return True
    return bool(v)


def mask_to_concrete(m):
    """object array of boolean terms -> numpy bool array if all constant, else None."""
    if m.dtype != object:
        return m
    out = np.empty(m.shape, dtype=bool)
    flat = out.reshape(-1)
    for i, x in enumerate(m.reshape(-1)):
        if x is tm.TRUE or x is True:
            flat[i] = True
        elif x is tm.FALSE or x is False:
            flat[i] = False
        else:
            return None
    return out


def is_bool_array(a):
    if not isinstance(a, np.ndarray):
        return False
    if a.dtype == bool:
        return True
    if a.dtype == object and a.size:
        x = a.reshape(-1)[0]
        return (isinstance(x, T) and x.is_bool) or isinstance(x, bool)
    return False


class Interp(object):
    def __init__(self, repo_root="/repo", max_paths=256):
        self.repo_root = repo_root
        self.modules = {}
        self.externals = {}       # dotted external name -> python callable(interp, *args, **kw) | value
        # itertools: pure combinatorics over the (concrete) structure of their arguments; results are materialised lists
        import itertools as _it
        _lst = lambda interp, x: list(interp.iterate(x))
        self.externals.update({
            "itertools.chain": lambda interp, *seqs: [x for s_ in seqs for x in _lst(interp, s_)],
            "itertools.product": lambda interp, *seqs, repeat=1: [tuple(c) for c in _it.product(*[_lst(interp, s_) for s_ in seqs], repeat=int(repeat))],
            "itertools.combinations": lambda interp, seq, r: [tuple(c) for c in _it.combinations(_lst(interp, seq), int(r))],
            "itertools.combinations_with_replacement": lambda interp, seq, r: [tuple(c) for c in _it.combinations_with_replacement(_lst(interp, seq), int(r))],
            "itertools.permutations": lambda interp, seq, r=None: [tuple(c) for c in _it.permutations(_lst(interp, seq), None if r is None else int(r))],
            "itertools.zip_longest": lambda interp, *seqs, fillvalue=None: [tuple(c) for c in _it.zip_longest(*[_lst(interp, s_) for s_ in seqs], fillvalue=fillvalue)],
            "itertools.islice": lambda interp, seq, *a: list(_it.islice(_lst(interp, seq), *[None if x is None else int(x) for x in a])),
        })
        self.model_paths = {}     # external module name -> path of a contract model source (assumed contract, interpreted like code)
        self.overrides = {}       # qualname -> callable(interp, args, kwargs) used instead of the body
        self.max_paths = max_paths
        self.parsed = {}          # path -> ast
        self.trace = []
        self.pos = 0
        self.pc = []              # path condition (list of boolean terms)
        self.hyps = []            # hypotheses used for feasibility pruning
        self.prune = True
        self.call_depth = 0
        self.log = []             # free-form events (writes, calls) for frames/ghost state
        self.fresh = 0
        self.functions_seen = {}  # qualname -> (path, lineno) of every repo function body executed
        self.stmt_budget = 2000000
        self.feasible_fn = None
        self.fs = {}
        from .npmodel import NPModel, install_builtins
        self.np = NPModel(self)
        self.builtins = install_builtins(self)

    # ------------------------------------------------------------ modules
    def module_path(self, name):
        p = os.path.join(self.repo_root, *name.split("."))
        if os.path.isdir(p) and os.path.exists(os.path.join(p, "__init__.py")):
            return os.path.join(p, "__init__.py")
        if os.path.exists(p + ".py"):
            return p + ".py"
        return None

    def parse(self, path):
        if path not in self.parsed:
            with open(path) as f:
                self.parsed[path] = ast.parse(f.read(), path)
        return self.parsed[path]

    def load_module(self, name):
        if name in self.modules:
            return self.modules[name]
        if name in self.externals:
            return self.externals[name]
        path = self.module_path(name) if name.split(".")[0] == "ciderpress" else self.model_paths.get(name)
        if path is None:
            m = self.external_module(name)
            self.modules[name] = m
            return m
        m = ModuleV(name, path)
        self.modules[name] = m
        m.ns["__name__"] = name
        m.ns["__file__"] = path
        env = Env(None, m.ns)
        tree = self.parse(path)
        for st in tree.body:
            try:
                self.exec_stmt(st, env, m)
            except Unsupported as e:
                for tname in _assigned_names(st):
                    m.ns[tname] = Opaque("%s.%s[%s]" % (name, tname, e))
            except PyRaise as e:
                for tname in _assigned_names(st):
                    m.ns[tname] = Opaque("%s.%s[raised %s]" % (name, tname, e))
        m.loaded = True
        return m

    def external_module(self, name):
        if name in ("numpy", "numpy.linalg"):
            return self.np if name == "numpy" else self.np.linalg
        if name in ("os", "os.path"):
            from .npmodel import NSModel
            import os as _os
            pure = {n: Builtin("os.path." + n, getattr(_os.path, n)) for n in ("splitext", "basename", "dirname", "join", "split", "normpath", "isabs")}
            pure["exists"] = Builtin("os.path.exists", lambda p: p in self.fs or ("joblib:" + p) in self.fs)
            pure["isfile"] = pure["exists"]
            path = NSModel("os.path", pure)
            return path if name == "os.path" else NSModel("os", {"path": path, "sep": "/", "environ": {}})
        if name == "ctypes":
            from .npmodel import ctypes_model
            return ctypes_model()
        return Opaque(name)

    def get_function(self, qualname):
        """'pkg.mod:func' or 'pkg.mod:Class.method' -> FuncV / ClassV."""
        modname, _, path = qualname.partition(":")
        m = self.load_module(modname)
        v = m.ns[path.split(".")[0]]
        for part in path.split(".")[1:]:
            if isinstance(v, ClassV):
                v, _ = v.lookup(part)
            else:
                v = self.getattr(v, part)
        return v

    # ------------------------------------------------------------ branching
    def reset_path(self):
        CURRENT[0] = self
        self.pos = 0
        self.pc = []
        self.log = []

    def branch(self, cond):
        """Decide a boolean; forks when symbolic."""
        cb = const_bool(cond)
        if cb is not None:
            return cb
        if not isinstance(cond, T):
            raise Unsupported("branch on %r" % type(cond))
        # already implied by the path condition?
        if cond in self.pc:
            return True
        neg = tm.mk_not(cond)
        if neg in self.pc:
            return False
        if self.pos < len(self.trace):
            val = self.trace[self.pos][0]
        else:
            val = True
            forced = False
            if self.prune and self.feasible_fn is not None:
                ok_t = self.feasible_fn(self.hyps + self.pc + [cond])
                if not ok_t:
                    val, forced = False, True
                else:
                    ok_f = self.feasible_fn(self.hyps + self.pc + [neg])
                    if not ok_f:
                        forced = True
            self.trace.append([val, forced])
        self.pos += 1
        self.pc.append(cond if val else neg)
        return val

    def next_path(self):
        """Advance the decision trace to the next unexplored path; False when exhausted."""
        while self.trace:
            val, done = self.trace[-1]
            if not done:
                if self.prune and self.feasible_fn is not None and val is True:
                    pass
                self.trace[-1] = [not val, True]
                return True
            self.trace.pop()
        return False

    def explore(self, thunk):
        """Run thunk() on every path.  Yields (outcome, value, pc, log) with outcome 'return' | 'raise'."""
        self.trace = []
        n = 0
        while True:
            self.reset_path()
            n += 1
            if n > self.max_paths:
                raise PathLimit("more than %d paths" % self.max_paths)
            try:
                v = thunk()
                yield ("return", v, list(self.pc), list(self.log))
            except PyRaise as e:
                yield ("raise", e.exc, list(self.pc), list(self.log))
            if not self.next_path():
                break

    # ------------------------------------------------------------ statements
    def exec_block(self, body, env, mod):
        for st in body:
            self.exec_stmt(st, env, mod)

    def exec_stmt(self, st, env, mod):
        self.stmt_budget -= 1
        if self.stmt_budget < 0:
            raise Unsupported("statement budget exhausted")
        k = type(st).__name__
        m = getattr(self, "st_" + k, None)
        if m is None:
            raise Unsupported("statement %s at %s:%d" % (k, mod.name, st.lineno))
        try:
            m(st, env, mod)
        except SymbolicBool as e:
            raise Unsupported("symbolic truth value outside a branch at %s:%d: %s" % (mod.name, st.lineno, e))

    def st_Expr(self, st, env, mod):
        if isinstance(st.value, ast.Constant):
            return
        self.eval(st.value, env, mod)

    def st_Pass(self, st, env, mod):
        pass

    def st_Import(self, st, env, mod):
        for a in st.names:
            name = a.name
            if a.asname:
                env.vars[a.asname] = self.load_module(name)
            else:
                top = name.split(".")[0]
                env.vars[top] = self.load_module(top)

    def st_ImportFrom(self, st, env, mod):
        name = st.module or ""
        if st.level:
            base = mod.name.split(".")
            if not mod.path.endswith("__init__.py"):
                base = base[:-1]
            base = base[:len(base) - (st.level - 1)]
            name = ".".join(base + ([name] if name else []))
        m = self.load_module(name)
        for a in st.names:
            if a.name == "*":
                if isinstance(m, ModuleV):
                    for k, v in m.ns.items():
                        if not k.startswith("_"):
                            env.vars[k] = v
                continue
            tgt = a.asname or a.name
            if isinstance(m, ModuleV):
                if a.name in m.ns:
                    env.vars[tgt] = m.ns[a.name]
                else:
                    sub = self.module_path(name + "." + a.name) if name.startswith("ciderpress") else None
                    if sub:
                        env.vars[tgt] = self.load_module(name + "." + a.name)
                    else:
                        env.vars[tgt] = Opaque("%s.%s" % (name, a.name))
            else:
                full = "%s.%s" % (name, a.name)
                if full in self.externals:
                    env.vars[tgt] = self.externals[full]
                else:
                    try:
                        env.vars[tgt] = self.getattr(m, a.name)
                    except (Unsupported, PyRaise):
                        env.vars[tgt] = Opaque(full)

    def st_FunctionDef(self, st, env, mod, owner=None):
        f = self.make_function(st, env, mod, owner)
        env.vars[st.name] = f
        return f

    def make_function(self, st, env, mod, owner=None):
        f = FuncV(st, env, mod, owner)
        args = st.args
        f.defaults = [self.eval(d, env, mod) for d in args.defaults]
        f.kw_defaults = {a.arg: self.eval(d, env, mod) for a, d in zip(args.kwonlyargs, args.kw_defaults) if d is not None}
        for dec in getattr(st, "decorator_list", []):
            dn = _dotted(dec)
            if dn == "property":
                f.kind = "property"
            elif dn == "classmethod":
                f.kind = "classmethod"
            elif dn == "staticmethod":
                f.kind = "staticmethod"
            elif dn and dn.endswith(".setter"):
                prop = env.vars.get(dn.split(".")[0])
                if isinstance(prop, FuncV):
                    prop.setter = f
                    f.kind = "setter"
                    return prop
            elif dn in ("lru_cache", "functools.lru_cache", "cache", "functools.cache") or \
                    (isinstance(dec, ast.Call) and _dotted(dec.func) in ("lru_cache", "functools.lru_cache")):
                f.memo = {}
            # every other decorator is dropped (listed in the module docstring)
        return f

    def st_ClassDef(self, st, env, mod):
        bases = []
        for b in st.bases:
            try:
                bases.append(self.eval(b, env, mod))
            except (Unsupported, PyRaise, KeyError):
                bases.append(Opaque(_dotted(b) or "base"))
        c = ClassV(st.name, bases, mod)
        cenv = Env(env, c.ns)
        for s in st.body:
            if isinstance(s, ast.FunctionDef):
                # defaults / decorators see the class namespace, the body does not (Python scoping)
                fv = self.make_function(s, cenv, mod, owner=c)
                if isinstance(fv, FuncV):
                    fv.env = env
                    if fv.setter is not None:
                        fv.setter.env = env
                c.ns[s.name] = fv
            else:
                try:
                    self.exec_stmt(s, cenv, mod)
                except Unsupported as e:
                    # one class attribute that cannot be modelled (e.g. bound to an external helper) does not make the class opaque
                    names = _assigned_names(s)
                    if not names:
                        raise
                    for tname in names:
                        c.ns[tname] = Opaque("%s.%s.%s[%s]" % (mod.name, st.name, tname, e))
        env.vars[st.name] = c

    def st_Return(self, st, env, mod):
        raise _Return(self.eval(st.value, env, mod) if st.value is not None else None)

    def st_Assign(self, st, env, mod):
        v = self.eval(st.value, env, mod)
        for t in st.targets:
            self.assign(t, v, env, mod)

    def st_AnnAssign(self, st, env, mod):
        if st.value is not None:
            self.assign(st.target, self.eval(st.value, env, mod), env, mod)

    def st_AugAssign(self, st, env, mod):
        tgt = st.target
        if isinstance(tgt, ast.Name):
            cur = self.lookup(tgt.id, env, mod)
            rhs = self.eval(st.value, env, mod)
            new = self.binop(st.op, cur, rhs, inplace=True)
            self.set_name(tgt.id, new, env)
        elif isinstance(tgt, ast.Subscript):
            base = self.eval(tgt.value, env, mod)
            idx = self.eval_index(tgt.slice, env, mod)
            cur = self.getitem(base, idx)
            rhs = self.eval(st.value, env, mod)
            new = self.binop(st.op, cur, rhs, inplace=True)
            self.setitem(base, idx, new)
        elif isinstance(tgt, ast.Attribute):
            base = self.eval(tgt.value, env, mod)
            cur = self.getattr(base, tgt.attr)
            rhs = self.eval(st.value, env, mod)
            self.setattr(base, tgt.attr, self.binop(st.op, cur, rhs, inplace=True))
        else:
            raise Unsupported("augassign target")

    def st_If(self, st, env, mod):
        c = self.truth(self.eval(st.test, env, mod))
        self.exec_block(st.body if c else st.orelse, env, mod)

    def st_For(self, st, env, mod):
        it = self.iterate(self.eval(st.iter, env, mod))
        broke = False
        for v in it:
            self.assign(st.target, v, env, mod)
            try:
                self.exec_block(st.body, env, mod)
            except _Break:
                broke = True
                break
            except _Continue:
                continue
        if not broke and st.orelse:
            self.exec_block(st.orelse, env, mod)

    def st_While(self, st, env, mod):
        n = 0
        while self.truth(self.eval(st.test, env, mod)):
            n += 1
            if n > 10000:
                raise Unsupported("while loop bound")
            try:
                self.exec_block(st.body, env, mod)
            except _Break:
                break
            except _Continue:
                continue

    def st_Break(self, st, env, mod):
        raise _Break()

    def st_Continue(self, st, env, mod):
        raise _Continue()

    def st_Raise(self, st, env, mod):
        if st.exc is None:
            cur = env.lookup("__current_exc__") if self._has(env, "__current_exc__") else None
            if cur is None:
                raise Unsupported("bare raise")
            raise PyRaise(cur)
        e = self.eval(st.exc, env, mod)
        if isinstance(e, ExcClass):
            e = ExcV(e, ())
        if isinstance(e, ClassV):
            e = self.call(e, [], {})
        raise PyRaise(e)

    def _has(self, env, name):
        try:
            env.lookup(name)
            return True
        except KeyError:
            return False

    def st_Assert(self, st, env, mod):
        c = self.truth(self.eval(st.test, env, mod))
        if not c:
            msg = self.eval(st.msg, env, mod) if st.msg is not None else ""
            raise PyRaise(mk_exc("AssertionError", msg, "%s:%d" % (mod.name, st.lineno)))

    def st_Global(self, st, env, mod):
        if env.globals_decl is None:
            env.globals_decl = set()
        env.globals_decl.update(st.names)

    def st_Nonlocal(self, st, env, mod):
        pass

    def st_Delete(self, st, env, mod):
        for t in st.targets:
            if isinstance(t, ast.Name):
                env.vars.pop(t.id, None)
            elif isinstance(t, ast.Subscript):
                base = self.eval(t.value, env, mod)
                idx = self.eval_index(t.slice, env, mod)
                del base[idx]
            else:
                raise Unsupported("del target")

    def st_Try(self, st, env, mod):
        try:
            try:
                self.exec_block(st.body, env, mod)
            except PyRaise as e:
                handled = False
                for h in st.handlers:
                    if h.type is None or self.exc_matches(e.exc, self.eval(h.type, env, mod)):
                        if h.name:
                            env.vars[h.name] = e.exc
                        env.vars["__current_exc__"] = e.exc
                        self.exec_block(h.body, env, mod)
                        handled = True
                        break
                if not handled:
                    raise
            else:
                self.exec_block(st.orelse, env, mod)
        finally:
            if st.finalbody:
                self.exec_block(st.finalbody, env, mod)

    def exc_matches(self, exc, spec):
        if isinstance(spec, tuple):
            return any(self.exc_matches(exc, s) for s in spec)
        if isinstance(spec, ExcClass):
            return isinstance(exc, ExcV) and spec.name in exc.cls.mro_names()
        if isinstance(spec, ClassV):
            return isinstance(exc, Obj) and spec in exc.cls.mro()
        return False

    def st_With(self, st, env, mod):
        for item in st.items:
            ctx = self.eval(item.context_expr, env, mod)
            if item.optional_vars is not None:
                self.assign(item.optional_vars, ctx, env, mod)
        self.exec_block(st.body, env, mod)

    # ------------------------------------------------------------ assignment helpers
    def set_name(self, name, v, env):
        if env.globals_decl and name in env.globals_decl:
            e = env
            while e.parent is not None:
                e = e.parent
            e.vars[name] = v
        else:
            env.vars[name] = v

    def assign(self, target, v, env, mod):
        if isinstance(target, ast.Name):
            self.set_name(target.id, v, env)
        elif isinstance(target, (ast.Tuple, ast.List)):
            vals = list(self.iterate(v))
            star = [i for i, e in enumerate(target.elts) if isinstance(e, ast.Starred)]
            if star:
                i = star[0]
                nafter = len(target.elts) - i - 1
                for e, x in zip(target.elts[:i], vals[:i]):
                    self.assign(e, x, env, mod)
                self.assign(target.elts[i].value, vals[i:len(vals) - nafter], env, mod)
                for e, x in zip(target.elts[i + 1:], vals[len(vals) - nafter:]):
                    self.assign(e, x, env, mod)
            else:
                if len(vals) != len(target.elts):
                    raise PyRaise(mk_exc("ValueError", "unpack: expected %d values, got %d" % (len(target.elts), len(vals))))
                for e, x in zip(target.elts, vals):
                    self.assign(e, x, env, mod)
        elif isinstance(target, ast.Attribute):
            self.setattr(self.eval(target.value, env, mod), target.attr, v)
        elif isinstance(target, ast.Subscript):
            base = self.eval(target.value, env, mod)
            idx = self.eval_index(target.slice, env, mod)
            self.setitem(base, idx, v)
        else:
            raise Unsupported("assignment target %s" % type(target).__name__)

    # ------------------------------------------------------------ attribute access
    def getattr(self, v, name):
        if isinstance(v, Obj):
            if name in v.fields:
                return v.fields[name]
            a, owner = v.cls.lookup(name)
            if owner is None:
                if name == "__class__":
                    return v.cls
                if name == "__dict__":
                    return v.fields
                raise PyRaise(mk_exc("AttributeError", "%s has no attribute %s" % (v.cls.name, name)))
            return self.bind(a, v, v.cls)
        if isinstance(v, SuperV):
            a, owner = v.start_cls.lookup(name, after=v.after_cls)
            if owner is None:
                if name == "__init__":
                    return Builtin("object.__init__", lambda *a, **k: None)
                raise PyRaise(mk_exc("AttributeError", "super has no attribute %s" % name))
            return self.bind(a, v.obj, v.start_cls)
        if isinstance(v, ClassV):
            a, owner = v.lookup(name)
            if owner is None:
                if name == "__name__":
                    return v.name
                if name == "__bases__":
                    return tuple(v.bases)
                if name == "__mro__":
                    return tuple(v.mro())
                raise PyRaise(mk_exc("AttributeError", "class %s has no attribute %s" % (v.name, name)))
            if isinstance(a, FuncV):
                if a.kind == "classmethod":
                    return BoundMethod(v, a)
                return a
            return a
        if isinstance(v, ModuleV):
            if name in v.ns:
                return v.ns[name]
            sub = v.name + "." + name
            if self.module_path(sub):
                return self.load_module(sub)
            raise PyRaise(mk_exc("AttributeError", "module %s has no attribute %s" % (v.name, name)))
        if isinstance(v, Opaque):
            full = "%s.%s" % (v.name, name)
            if full in self.externals:
                return self.externals[full]
            return Opaque(full)
        if isinstance(v, ExcV):
            if name == "args":
                return v.args
            raise PyRaise(mk_exc("AttributeError", name))
        from .npmodel import NPModel, NSModel, MaskedSel
        if isinstance(v, NSModel):
            return v.get(name)
        if isinstance(v, MaskedSel):
            if name == "size":
                return v.size
            if name in ("max", "min"):
                return Builtin("masked." + name, lambda: v.extreme(name))
            raise Unsupported("attribute %s of a masked selection" % name)
        if isinstance(v, np.ndarray):
            return self.np.array_attr(v, name)
        if isinstance(v, (T, Q, int, bool)) and not isinstance(v, np.ndarray):
            return self.np.scalar_attr(v, name)
        if isinstance(v, (list, dict, tuple, str, set, frozenset, slice, range)):
            return self.builtins["__container_attr__"](v, name)
        if isinstance(v, TypeTok):
            if v is TYPE_DICT and name == "fromkeys":
                return Builtin("dict.fromkeys", lambda ks, val=None: {k: val for k in ks})
            if name == "__name__":
                return v.name
        if isinstance(v, FuncV):
            if name == "__name__":
                return v.name
        if type(v).__name__ == "flagsobj" and name in ("c_contiguous", "f_contiguous", "contiguous", "writeable", "owndata", "aligned"):
            return bool(getattr(v, name))
        if v is None and not name.startswith("__"):
            raise PyRaise(mk_exc("AttributeError", "'NoneType' object has no attribute '%s'" % name))
        raise Unsupported("getattr %s on %r" % (name, type(v).__name__))

    def bind(self, a, obj, cls):
        if isinstance(a, FuncV):
            if a.kind == "property":
                return self.call_function(a, [obj], {})
            if a.kind == "classmethod":
                return BoundMethod(cls, a)
            if a.kind == "staticmethod":
                return a
            return BoundMethod(obj, a)
        return a

    def setattr(self, v, name, val):
        if isinstance(v, Obj):
            a, owner = v.cls.lookup(name)
            if isinstance(a, FuncV) and a.kind == "property":
                if a.setter is None:
                    raise PyRaise(mk_exc("AttributeError", "can't set attribute %s" % name))
                self.call_function(a.setter, [v, val], {})
                return
            v.fields[name] = val
            self.log.append(("setattr", v, name))
        elif isinstance(v, ClassV):
            v.ns[name] = val
        elif isinstance(v, ModuleV):
            v.ns[name] = val
        elif isinstance(v, np.ndarray) and name == "shape":
            v.shape = val
        else:
            raise Unsupported("setattr on %r" % type(v).__name__)

    # ------------------------------------------------------------ items
    def eval_index(self, node, env, mod):
        return self.eval(node, env, mod)

    def getitem(self, base, idx):
        if isinstance(base, np.ndarray):
            return self.np.getitem(base, idx)
        if isinstance(base, Obj):
            f, owner = base.cls.lookup("__getitem__")
            if owner is None:
                raise PyRaise(mk_exc("TypeError", "%s is not subscriptable" % base.cls.name))
            return self.call_function(f, [base, idx], {})
        if isinstance(base, dict):
            k = self.hashable(idx)
            if k not in base:
                raise PyRaise(mk_exc("KeyError", k))
            return base[k]
        if isinstance(base, (list, tuple, str, range)):
            if isinstance(idx, T):
                raise Unsupported("symbolic index into a Python sequence")
            if isinstance(idx, (np.integer,)):
                idx = int(idx)
            if isinstance(idx, Q):
                raise PyRaise(mk_exc("TypeError", "indices must be integers"))
            try:
                return base[idx]
            except IndexError:
                raise PyRaise(mk_exc("IndexError", "index out of range"))
            except TypeError as e:
                raise PyRaise(mk_exc("TypeError", str(e)))
        if isinstance(base, Opaque):
            raise Unsupported("subscript of %r" % base)
        if isinstance(base, (int, Q, bool)) or (isinstance(base, T) and not base.is_bool()):
            raise PyRaise(mk_exc("TypeError", "'%s' object is not subscriptable" % ("int" if isinstance(base, int) else "float")))
        raise Unsupported("getitem on %r" % type(base).__name__)

    def hashable(self, k):
        if isinstance(k, T):
            if k.op == "c":
                q = k.args[0]
                return int(q) if q.denominator == 1 else q
            raise Unsupported("symbolic dictionary key")
        if isinstance(k, Q) and k.denominator == 1:
            return int(k)
        if isinstance(k, np.integer):
            return int(k)
        return k

    def setitem(self, base, idx, v):
        if isinstance(base, np.ndarray):
            self.np.setitem(base, idx, v)
        elif isinstance(base, dict):
            base[self.hashable(idx)] = v
        elif isinstance(base, list):
            try:
                base[idx] = v
            except IndexError:
                raise PyRaise(mk_exc("IndexError", "list assignment index out of range"))
        elif isinstance(base, Obj):
            f, owner = base.cls.lookup("__setitem__")
            if owner is None:
                raise PyRaise(mk_exc("TypeError", "object does not support item assignment"))
            self.call_function(f, [base, idx, v], {})
        elif isinstance(base, tuple):
            raise PyRaise(mk_exc("TypeError", "'tuple' object does not support item assignment"))
        else:
            raise Unsupported("setitem on %r" % type(base).__name__)

    # ------------------------------------------------------------ iteration / truth
    def iterate(self, v):
        if isinstance(v, (list, tuple, range, str, set, frozenset)):
            return list(v)
        if isinstance(v, dict):
            return list(v.keys())
        if isinstance(v, np.ndarray):
            if v.ndim == 0:
                raise PyRaise(mk_exc("TypeError", "iteration over a 0-d array"))
            return [v[i] for i in range(v.shape[0])]
        if hasattr(v, "__iter__") and not isinstance(v, (T, Obj, Opaque)):
            return list(v)
        if isinstance(v, Obj):
            f, owner = v.cls.lookup("__iter__")
            if owner is not None:
                return self.iterate(self.call_function(f, [v], {}))
            f, owner = v.cls.lookup("__getitem__")
            g, gowner = v.cls.lookup("__len__")
            if owner is not None and gowner is not None:
                n = self.call_function(g, [v], {})
                return [self.call_function(f, [v, i], {}) for i in range(n)]
        raise Unsupported("iteration over %r" % type(v).__name__)

    def truth(self, v):
        if isinstance(v, T):
            # Python truthiness of a number: non-zero
            return self.branch(v if v.is_bool else tm.mk_not(tm.mk_eq(v, tm.ZERO)))
        if isinstance(v, np.ndarray) and v.dtype == object and v.size == 1:
            return self.truth(v.reshape(-1)[0])
        if isinstance(v, Obj):
            f, owner = v.cls.lookup("__bool__")
            if owner is not None:
                return self.truth(self.call_function(f, [v], {}))
            f, owner = v.cls.lookup("__len__")
            if owner is not None:
                return self.call_function(f, [v], {}) != 0
            return True
        if isinstance(v, Opaque):
            raise Unsupported("truth value of %r" % v)
        return const_bool(v)

    # ------------------------------------------------------------ expressions
    def eval(self, node, env, mod):
        m = getattr(self, "ex_" + type(node).__name__, None)
        if m is None:
            raise Unsupported("expression %s at %s:%d" % (type(node).__name__, mod.name, getattr(node, "lineno", 0)))
        return m(node, env, mod)

    def lookup(self, name, env, mod):
        try:
            return env.lookup(name)
        except KeyError:
            pass
        if name in mod.ns:
            return mod.ns[name]
        if name in self.builtins:
            return self.builtins[name]
        raise PyRaise(mk_exc("NameError", "name %s is not defined" % name))

    def ex_Constant(self, node, env, mod):
        v = node.value
        if isinstance(v, float):
            if v != v or v in (float("inf"), float("-inf")):
                return tm.const(v)
            return Q(repr(v))
        if isinstance(v, complex):
            raise Unsupported("complex literal")
        return v

    def ex_Name(self, node, env, mod):
        return self.lookup(node.id, env, mod)

    def ex_Attribute(self, node, env, mod):
        return self.getattr(self.eval(node.value, env, mod), node.attr)

    def ex_Subscript(self, node, env, mod):
        base = self.eval(node.value, env, mod)
        idx = self.eval_index(node.slice, env, mod)
        return self.getitem(base, idx)

    def ex_Slice(self, node, env, mod):
        f = lambda n: None if n is None else self._as_index(self.eval(n, env, mod))
        return slice(f(node.lower), f(node.upper), f(node.step))

    def _as_index(self, v):
        if isinstance(v, Q) and v.denominator == 1:
            return int(v)
        if isinstance(v, T) and v.op == "c" and v.args[0].denominator == 1:
            return int(v.args[0])
        return v

    def ex_Tuple(self, node, env, mod):
        return tuple(self._elts(node.elts, env, mod))

    def ex_List(self, node, env, mod):
        return self._elts(node.elts, env, mod)

    def ex_Set(self, node, env, mod):
        return set(self.hashable(x) for x in self._elts(node.elts, env, mod))

    def _elts(self, elts, env, mod):
        out = []
        for e in elts:
            if isinstance(e, ast.Starred):
                out.extend(self.iterate(self.eval(e.value, env, mod)))
            else:
                out.append(self.eval(e, env, mod))
        return out

    def ex_Dict(self, node, env, mod):
        d = {}
        for k, v in zip(node.keys, node.values):
            if k is None:
                d.update(self.eval(v, env, mod))
            else:
                d[self.hashable(self.eval(k, env, mod))] = self.eval(v, env, mod)
        return d

    def ex_BinOp(self, node, env, mod):
        return self.binop(node.op, self.eval(node.left, env, mod), self.eval(node.right, env, mod))

    def ex_UnaryOp(self, node, env, mod):
        v = self.eval(node.operand, env, mod)
        op = node.op
        if isinstance(op, ast.Not):
            if isinstance(v, T):
                return tm.mk_not(v)
            return not self.truth(v)
        if isinstance(op, ast.USub):
            if isinstance(v, np.ndarray):
                return -obj_array(v) if v.dtype.kind == "f" else -v
            if isinstance(v, (int, Q, T)) and not isinstance(v, bool):
                return -v
            if isinstance(v, bool):
                return -int(v)
            if isinstance(v, Obj):
                return self.call_method(v, "__neg__", [])
        if isinstance(op, ast.UAdd):
            return v
        if isinstance(op, ast.Invert):
            if isinstance(v, np.ndarray):
                if v.dtype == object:
                    return elementwise(lambda x: tm.mk_not(to_term(x)), v)
                return ~v
            if isinstance(v, T):
                return tm.mk_not(v)
            if isinstance(v, int):
                return ~v
        raise Unsupported("unary %s on %r" % (type(op).__name__, type(v).__name__))

    def ex_BoolOp(self, node, env, mod):
        is_and = isinstance(node.op, ast.And)
        v = None
        for i, e in enumerate(node.values):
            v = self.eval(e, env, mod)
            if i == len(node.values) - 1:
                return v
            t = self.truth(v)
            if is_and and not t:
                return v
            if not is_and and t:
                return v
        return v

    def ex_Compare(self, node, env, mod):
        left = self.eval(node.left, env, mod)
        result = None
        for op, rn in zip(node.ops, node.comparators):
            right = self.eval(rn, env, mod)
            r = self.compare(op, left, right)
            if result is None:
                result = r
            else:
                if isinstance(result, T) or isinstance(r, T):
                    result = tm.mk_and(to_term(result), to_term(r))
                elif isinstance(result, np.ndarray) or isinstance(r, np.ndarray):
                    result = self.binop(ast.BitAnd(), result, r)
                else:
                    result = result and r
            if result is False:
                return False
            left = right
        return result

    def compare(self, op, a, b):
        k = type(op).__name__
        if k == "Is":
            return self.identical(a, b)
        if k == "IsNot":
            return not self.identical(a, b)
        if k in ("In", "NotIn"):
            r = self.contains(b, a)
            return r if k == "In" else (tm.mk_not(r) if isinstance(r, T) else not r)
        if isinstance(a, np.ndarray) or isinstance(b, np.ndarray):
            return self.np.compare(k, a, b)
        sym = isinstance(a, T) or isinstance(b, T)
        if sym and tm.lift(a) is not None and tm.lift(b) is not None:
            ta, tb = tm.lift(a), tm.lift(b)
            if k == "Lt":
                return tm.mk_lt(ta, tb)
            if k == "LtE":
                return tm.mk_le(ta, tb)
            if k == "Gt":
                return tm.mk_lt(tb, ta)
            if k == "GtE":
                return tm.mk_le(tb, ta)
            if k == "Eq":
                return tm.mk_eq(ta, tb)
            if k == "NotEq":
                return tm.mk_not(tm.mk_eq(ta, tb))
        if k in ("Eq", "NotEq"):
            r = self.equal(a, b)
            return r if k == "Eq" else (tm.mk_not(r) if isinstance(r, T) else not r)
        try:
            if k == "Lt":
                return a < b
            if k == "LtE":
                return a <= b
            if k == "Gt":
                return a > b
            if k == "GtE":
                return a >= b
        except TypeError as e:
            raise PyRaise(mk_exc("TypeError", str(e)))
        raise Unsupported("compare %s" % k)

    def identical(self, a, b):
        if a is None or b is None:
            return a is b
        if isinstance(a, (bool, str)) or isinstance(b, (bool, str)):
            return type(a) is type(b) and a == b
        return a is b

    def equal(self, a, b):
        if isinstance(a, T) or isinstance(b, T):
            ta, tb = tm.lift(a), tm.lift(b)
            if ta is None or tb is None:
                return False
            return tm.mk_eq(ta, tb)
        if isinstance(a, (list, tuple)) and isinstance(b, (list, tuple)):
            if type(a) is not type(b) or len(a) != len(b):
                return False
            acc = True
            for x, y in zip(a, b):
                r = self.equal(x, y)
                if r is False:
                    return False
                if r is not True:
                    acc = r if acc is True else tm.mk_and(to_term(acc), to_term(r))
            return acc
        if isinstance(a, Obj):
            f, owner = a.cls.lookup("__eq__")
            if owner is not None:
                return self.call_function(f, [a, b], {})
            return a is b
        if isinstance(a, (Obj, ClassV, FuncV, Opaque, ExcClass, TypeTok)) or isinstance(b, (Obj, ClassV, FuncV, Opaque, ExcClass, TypeTok)):
            return a is b
        if isinstance(a, str) != isinstance(b, str):
            return False
        if a is None or b is None:
            return a is b
        try:
            return bool(a == b)
        except Exception:
            return a is b

    def contains(self, container, item):
        if isinstance(container, dict):
            return self.hashable(item) in container
        if isinstance(container, (list, tuple, set, frozenset)):
            acc = False
            for x in container:
                r = self.equal(x, item)
                if r is True:
                    return True
                if r is not False:
                    acc = r if acc is False else tm.mk_or(to_term(acc), to_term(r))
            return acc
        if isinstance(container, str):
            if not isinstance(item, str):
                raise PyRaise(mk_exc("TypeError", "'in <string>' requires string as left operand"))
            return item in container
        if isinstance(container, range):
            return self.hashable(item) in container
        if isinstance(container, np.ndarray):
            return self.contains(list(container.reshape(-1)), item)
        if isinstance(container, Obj):
            f, owner = container.cls.lookup("__contains__")
            if owner is not None:
                return self.call_function(f, [container, item], {})
        raise Unsupported("'in' on %r" % type(container).__name__)

    def ex_IfExp(self, node, env, mod):
        c = self.eval(node.test, env, mod)
        return self.eval(node.body if self.truth(c) else node.orelse, env, mod)

    def ex_Lambda(self, node, env, mod):
        f = FuncV(node, env, mod, None, "<lambda>")
        f.defaults = [self.eval(d, env, mod) for d in node.args.defaults]
        return f

    def ex_JoinedStr(self, node, env, mod):
        parts = []
        for v in node.values:
            if isinstance(v, ast.Constant):
                parts.append(str(v.value))
            else:
                try:
                    parts.append(self.builtins["__to_str__"](self.eval(v.value, env, mod)))
                except (Unsupported, PyRaise):
                    parts.append("?")
        return "".join(parts)

    def ex_FormattedValue(self, node, env, mod):
        return self.builtins["__to_str__"](self.eval(node.value, env, mod))

    def ex_Starred(self, node, env, mod):
        raise Unsupported("starred expression")

    def _comp(self, node, env, mod, emit):
        def rec(gens, e):
            if not gens:
                emit(e)
                return
            g = gens[0]
            for v in self.iterate(self.eval(g.iter, e, mod)):
                e2 = Env(e)
                self.assign(g.target, v, e2, mod)
                if all(self.truth(self.eval(c, e2, mod)) for c in g.ifs):
                    rec(gens[1:], e2)
        rec(node.generators, Env(env))

    def ex_ListComp(self, node, env, mod):
        out = []
        self._comp(node, env, mod, lambda e: out.append(self.eval(node.elt, e, mod)))
        return out

    def ex_GeneratorExp(self, node, env, mod):
        return self.ex_ListComp(node, env, mod)

    def ex_SetComp(self, node, env, mod):
        return set(self.hashable(x) for x in self.ex_ListComp(node, env, mod))

    def ex_DictComp(self, node, env, mod):
        out = {}
        self._comp(node, env, mod, lambda e: out.__setitem__(self.hashable(self.eval(node.key, e, mod)), self.eval(node.value, e, mod)))
        return out

    def ex_Call(self, node, env, mod):
        fn_node = node.func
        # no-op calls dropped by the extraction
        dn = _dotted(fn_node)
        if dn is not None and (dn == "print" or dn.startswith("logger.") or dn.startswith("logging.")
                               or dn == "warnings.warn" or dn.endswith(".timer") or dn.endswith(".timer_debug1")
                               or dn.startswith("lib.logger.") or dn.endswith("log.timer")):
            return None
        # super() needs the defining class of the current function
        if isinstance(fn_node, ast.Name) and fn_node.id == "super" and len(node.args) == 2:
            owner = self.eval(node.args[0], env, mod)
            self_v = self.eval(node.args[1], env, mod)
            start = self_v.cls if isinstance(self_v, Obj) else self_v
            return SuperV(self_v, owner, start)
        if isinstance(fn_node, ast.Name) and fn_node.id == "super" and not node.args:
            self_v = self._lookup_opt(env, "__self__")
            owner = self._lookup_opt(env, "__owner__")
            if owner is None:
                raise Unsupported("super() outside a method")
            start = self_v.cls if isinstance(self_v, Obj) else self_v
            return SuperV(self_v, owner, start)
        f = self.eval(fn_node, env, mod)
        args = []
        for a in node.args:
            if isinstance(a, ast.Starred):
                args.extend(self.iterate(self.eval(a.value, env, mod)))
            else:
                args.append(self.eval(a, env, mod))
        kwargs = {}
        for k in node.keywords:
            if k.arg is None:
                kwargs.update(self.eval(k.value, env, mod))
            else:
                kwargs[k.arg] = self.eval(k.value, env, mod)
        return self.call(f, args, kwargs)

    def _lookup_opt(self, env, name):
        try:
            return env.lookup(name)
        except KeyError:
            return None

    # ------------------------------------------------------------ calls
    def call(self, f, args, kwargs):
        if isinstance(f, BoundMethod):
            return self.call_function(f.func, [f.self_v] + list(args), kwargs)
        if isinstance(f, FuncV):
            if f.memo is not None:
                try:
                    key = (tuple(a if isinstance(a, (int, str, Q, bool, type(None), T)) else ("obj", id(a)) for a in args),
                           tuple(sorted((k, v if isinstance(v, (int, str, Q, bool, type(None), T)) else ("obj", id(v))) for k, v in kwargs.items())))
                except TypeError:
                    raise Unsupported("memoised function %s called with unhashable arguments" % f.qualname)
                if key not in f.memo:
                    f.memo[key] = self.call_function(f, list(args), kwargs)
                return f.memo[key]
            return self.call_function(f, list(args), kwargs)
        if isinstance(f, ClassV):
            return self.instantiate(f, args, kwargs)
        if isinstance(f, Builtin):
            try:
                if f.needs_interp:
                    return f.fn(self, *args, **kwargs)
                return f.fn(*args, **kwargs)
            except SymbolicBool as e:
                raise Unsupported("builtin %s needs a concrete truth value: %s" % (f.name, e))
            except TypeError as e:
                if "positional argument" in str(e) or "unexpected keyword" in str(e):
                    raise PyRaise(mk_exc("TypeError", str(e)))
                raise
        if isinstance(f, ExcClass):
            return ExcV(f, tuple(args))
        if isinstance(f, TypeTok):
            return self.builtins["__construct__"](f, args, kwargs)
        from .npmodel import DType, as_exact
        if isinstance(f, DType):
            # np.float64(x), np.int32(x): scalar constructors
            x = args[0] if args else 0
            if f.kind in "iu":
                return self.builtins["__construct__"](TYPE_INT, [x], {})
            return self.builtins["__construct__"](TYPE_FLOAT, [x], {})
        if isinstance(f, Obj):
            if "__call__" in f.fields:
                return self.call(f.fields["__call__"], args, kwargs)
            g, owner = f.cls.lookup("__call__")
            if owner is None:
                raise PyRaise(mk_exc("TypeError", "%s object is not callable" % f.cls.name))
            return self.call_function(g, [f] + list(args), kwargs)
        if isinstance(f, Opaque):
            if f.name in self.externals:
                return self.call(self.externals[f.name], args, kwargs)
            raise Unsupported("call of external %s (no assumed contract registered)" % f.name)
        if f is None or isinstance(f, (int, Q, T, str, list, tuple, dict, np.ndarray)):
            raise PyRaise(mk_exc("TypeError", "'%s' object is not callable" % type(f).__name__))
        if callable(f):
            return f(self, *args, **kwargs)
        raise Unsupported("call of %r" % type(f).__name__)

    def call_method(self, obj, name, args, kwargs=None):
        return self.call(self.getattr(obj, name), args, kwargs or {})

    def instantiate(self, cls, args, kwargs):
        q = "%s:%s" % (cls.module.name, cls.name)
        if q in self.overrides:
            return self.overrides[q](self, cls, args, kwargs)
        o = Obj(cls)
        init, owner = cls.lookup("__init__")
        if owner is not None:
            self.call_function(init, [o] + list(args), kwargs)
        elif args or kwargs:
            exc_base = [b for c in cls.mro() for b in c.bases if isinstance(b, ExcClass)]
            if exc_base:
                o.fields["args"] = tuple(args)
            else:
                raise PyRaise(mk_exc("TypeError", "%s() takes no arguments" % cls.name))
        return o

    def call_function(self, f, args, kwargs):
        q = f.qualname
        if q in self.overrides:
            return self.overrides[q](self, f, args, kwargs)
        if self.call_depth > 60:
            raise Unsupported("call depth")
        node = f.node
        a = node.args
        env = Env(f.env)
        params = [p.arg for p in a.posonlyargs + a.args]
        nd = len(f.defaults)
        args = list(args)
        kwargs = dict(kwargs)
        if len(args) > len(params) and a.vararg is None:
            raise PyRaise(mk_exc("TypeError", "%s() takes %d positional arguments but %d were given" % (f.name, len(params), len(args))))
        for i, p in enumerate(params):
            if i < len(args):
                if p in kwargs:
                    raise PyRaise(mk_exc("TypeError", "%s() got multiple values for argument %s" % (f.name, p)))
                env.vars[p] = args[i]
            elif p in kwargs:
                env.vars[p] = kwargs.pop(p)
            elif i >= len(params) - nd:
                env.vars[p] = f.defaults[i - (len(params) - nd)]
            else:
                raise PyRaise(mk_exc("TypeError", "%s() missing required argument %s" % (f.name, p)))
        if a.vararg is not None:
            env.vars[a.vararg.arg] = tuple(args[len(params):])
        for p in a.kwonlyargs:
            if p.arg in kwargs:
                env.vars[p.arg] = kwargs.pop(p.arg)
            elif p.arg in f.kw_defaults:
                env.vars[p.arg] = f.kw_defaults[p.arg]
            else:
                raise PyRaise(mk_exc("TypeError", "%s() missing keyword-only argument %s" % (f.name, p.arg)))
        if a.kwarg is not None:
            env.vars[a.kwarg.arg] = kwargs
        elif kwargs:
            raise PyRaise(mk_exc("TypeError", "%s() got an unexpected keyword argument %s" % (f.name, sorted(kwargs)[0])))
        if f.owner is not None and params:
            env.vars["__self__"] = env.vars[params[0]] if f.kind != "staticmethod" else None
            env.vars["__owner__"] = f.owner
        self.functions_seen[q] = (f.module.path, node.lineno)
        if isinstance(node, ast.Lambda):
            return self.eval(node.body, env, f.module)
        is_gen = _is_generator(node)
        if is_gen:
            # generator functions are run eagerly; the yielded values are collected in order
            env.vars["__yield__"] = []
        self.call_depth += 1
        try:
            self.exec_block(node.body, env, f.module)
        except _Return as r:
            if is_gen:
                return env.vars["__yield__"]
            return r.value
        finally:
            self.call_depth -= 1
        if is_gen:
            return env.vars["__yield__"]
        return None

    def ex_Yield(self, node, env, mod):
        env.lookup("__yield__").append(self.eval(node.value, env, mod) if node.value is not None else None)
        return None

    def ex_YieldFrom(self, node, env, mod):
        env.lookup("__yield__").extend(self.iterate(self.eval(node.value, env, mod)))
        return None

    # ------------------------------------------------------------ binary operators
    def binop(self, op, a, b, inplace=False):
        k = type(op).__name__
        if isinstance(a, Obj) or isinstance(b, Obj):
            names = {"Add": "add", "Sub": "sub", "Mult": "mul", "Div": "truediv", "Pow": "pow", "MatMult": "matmul",
                     "Mod": "mod", "FloorDiv": "floordiv"}
            if k in names:
                if isinstance(a, Obj):
                    f, owner = a.cls.lookup("__%s__" % names[k])
                    if owner is not None:
                        return self.call_function(f, [a, b], {})
                if isinstance(b, Obj):
                    f, owner = b.cls.lookup("__r%s__" % names[k])
                    if owner is not None:
                        return self.call_function(f, [b, a], {})
            raise PyRaise(mk_exc("TypeError", "unsupported operand types for %s" % k))
        if isinstance(a, Opaque) or isinstance(b, Opaque):
            raise Unsupported("arithmetic on external value %r / %r" % (a, b))
        from .npmodel import MaskedSel
        if isinstance(a, MaskedSel) or isinstance(b, MaskedSel):
            return MaskedSel.combine(self, k, a, b)
        if isinstance(a, np.ndarray) or isinstance(b, np.ndarray):
            return self.np.binop(k, a, b, inplace)
        # python containers / strings
        if k == "Add" and isinstance(a, (list, tuple, str)) and type(a) is type(b):
            return a + b
        if k == "Add" and (isinstance(a, (list, tuple, str)) or isinstance(b, (list, tuple, str))):
            raise PyRaise(mk_exc("TypeError", "can only concatenate like sequences"))
        if k == "Mult" and isinstance(a, (list, tuple, str)) and isinstance(b, int):
            return a * b
        if k == "Mult" and isinstance(b, (list, tuple, str)) and isinstance(a, int):
            return a * b
        if k == "Mod" and isinstance(a, str):
            try:
                return a % (b if not isinstance(b, (T, Q)) else str(b))
            except Exception:
                return a
        if k in ("BitOr", "BitAnd", "BitXor") and (isinstance(a, (set, frozenset)) or isinstance(a, dict)):
            return {"BitOr": operator.or_, "BitAnd": operator.and_, "BitXor": operator.xor}[k](a, b)
        return scalar_binop(k, a, b)

    # ------------------------------------------------------------ top-level helpers for contracts
    def run(self, f, *args, **kwargs):
        """Single-path call (raises Unsupported on fork unless trace handles it)."""
        return self.call(f, list(args), kwargs)


SAFETY_LOG = [None]      # when a list: every partial operation executed is recorded (kind, operand terms, path condition)
CURRENT = [None]


def log_partial(kind, *operands):
    if SAFETY_LOG[0] is not None:
        it = CURRENT[0]
        SAFETY_LOG[0].append((kind, tuple(tm.lift(o) for o in operands), tuple(it.pc) if it is not None else ()))


def scalar_binop(k, a, b):
    if k == "Mult" and isinstance(a, Builtin) and a.name.startswith("ctypes.c_") and isinstance(b, int):
        # (ctypes.c_void_p * n): an array type; calling it packs its n arguments
        return Builtin("%s*%d" % (a.name, b), lambda *xs: list(xs))
    for v in (a, b):
        if not isinstance(v, (int, Q, T, bool, np.integer)):
            if v is None:
                raise PyRaise(mk_exc("TypeError", "unsupported operand type NoneType for %s" % k))
            if isinstance(v, (str, list, tuple, dict)):
                raise PyRaise(mk_exc("TypeError", "unsupported operand types for %s" % k))
            raise Unsupported("scalar op %s on %r" % (k, type(v).__name__))
    if isinstance(a, np.integer):
        a = int(a)
    if isinstance(b, np.integer):
        b = int(b)
    # a symbolic truth value used as a number (mask arithmetic: x * (y >= c)): True is 1, False is 0
    if k in ("Add", "Sub", "Mult", "Div", "Pow"):
        if isinstance(a, T) and a.is_bool:
            a = tm.mk_ite(a, tm.ONE, tm.ZERO)
        if isinstance(b, T) and b.is_bool:
            b = tm.mk_ite(b, tm.ONE, tm.ZERO)
    sym = isinstance(a, T) or isinstance(b, T)
    if k == "Add":
        return a + b
    if k == "Sub":
        return a - b
    if k == "Mult":
        return a * b
    if k == "Div":
        if not sym and b == 0:
            if SAFETY_LOG[0] is not None:
                log_partial("div", b)
                return tm.var("inf")
            raise PyRaise(mk_exc("ZeroDivisionError", "division by zero"))
        if sym:
            if isinstance(b, T):
                log_partial("div", b)
            return to_term(a) / to_term(b)
        return Q(a) / Q(b)
    if k == "Pow":
        if sym:
            if isinstance(a, T) and not (isinstance(b, int) and b >= 0) and not (isinstance(b, Q) and b.denominator == 1 and b >= 0):
                log_partial("pow", a, b)
            return to_term(a) ** to_term(b)
        if isinstance(b, int) or (isinstance(b, Q) and b.denominator == 1):
            bi = int(b)
            if bi >= 0:
                return a ** bi
            if a == 0:
                raise PyRaise(mk_exc("ZeroDivisionError", "0 to a negative power"))
            return Q(a) ** bi
        # rational base, non-integer exponent: exact only symbolically
        return tm.mk_pow(tm.const(a), tm.const(b))
    if k == "FloorDiv":
        if sym:
            return tm.mk_fn("floor", to_term(a) / to_term(b))
        if b == 0:
            raise PyRaise(mk_exc("ZeroDivisionError", "division by zero"))
        return a // b
    if k == "Mod":
        if sym:
            ta, tb = to_term(a), to_term(b)
            return ta - tb * tm.mk_fn("floor", ta / tb)
        if b == 0:
            raise PyRaise(mk_exc("ZeroDivisionError", "modulo by zero"))
        return a % b
    if k in ("BitAnd", "BitOr", "BitXor"):
        if sym:
            ta, tb = to_term(a), to_term(b)
            if k == "BitAnd":
                return tm.mk_and(ta, tb)
            if k == "BitOr":
                return tm.mk_or(ta, tb)
            return tm.mk_not(tm.mk_eq(ta, tb))
        return {"BitAnd": operator.and_, "BitOr": operator.or_, "BitXor": operator.xor}[k](a, b)
    if k in ("LShift", "RShift") and not sym:
        return (a << b) if k == "LShift" else (a >> b)
    raise Unsupported("binary operator %s" % k)


def _is_generator(fnode):
    stack = list(fnode.body)
    while stack:
        n = stack.pop()
        if isinstance(n, (ast.Yield, ast.YieldFrom)):
            return True
        if isinstance(n, (ast.FunctionDef, ast.Lambda, ast.ClassDef)):
            continue
        stack.extend(ast.iter_child_nodes(n))
    return False


def _dotted(node):
    if isinstance(node, ast.Name):
        return node.id
    if isinstance(node, ast.Attribute):
        b = _dotted(node.value)
        return None if b is None else b + "." + node.attr
    return None


def _assigned_names(st):
    out = []
    if isinstance(st, ast.Assign):
        for t in st.targets:
            for n in ast.walk(t):
                if isinstance(n, ast.Name):
                    out.append(n.id)
    elif isinstance(st, (ast.Import, ast.ImportFrom)):
        for a in st.names:
            out.append((a.asname or a.name).split(".")[0])
    elif isinstance(st, (ast.FunctionDef, ast.ClassDef)):
        out.append(st.name)
    return out
