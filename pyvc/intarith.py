"""Integer index arithmetic with products of symbolic sizes (row-major offsets, block partitions, ceil-divisions).

z3's nonlinear integer engine is slow and unstable on offset equalities such as  irf*n + blk*t + g = irf'*n + blk*t' + g'.
This module decides them in *linear* arithmetic: every nonlinear monomial (and every division by a non-constant) is replaced by a
fresh integer variable, and valid integer lemmas relating those variables are added:

  q = idiv(x, y):        y > 0 and x >= 0  ->  y*q <= x < y*q + y ,  q >= 0                       (C division, non-negative operands)
  m = a*b:               a >= 0 and b >= 0 -> m >= 0 ;   a >= 1 and b >= 0 -> m >= b ;   b >= 1 and a >= 0 -> m >= a ;
                         a <= 0 and b >= 0 -> m <= 0
  m1 = a*F, m2 = a'*F:   F >= 0 ->  (a <= a' -> m1 <= m2) and (a + 1 <= a' -> m1 + F <= m2)   and symmetrically     (monotonicity in one factor)

All lemmas are theorems of the integers, so an `unsat` of the abstraction is an `unsat` of the original constraints (sound).
A `sat` of the abstraction proves nothing; the caller then falls back to the exact nonlinear query.
"""
import itertools

from . import terms as tm
from .terms import T


def _is_int(t):
    if t.op == "c":
        return t.args[0].denominator == 1
    if t.op == "v":
        return t.args[1] == "I"
    if t.op == "fi":
        return True
    if t.op in ("+", "*"):
        return all(_is_int(a) for a in t.args)
    if t.op == "f":
        return t.args[0] in ("idiv", "imod", "trunc")
    if t.op == "ite":
        return _is_int(t.args[1]) and _is_int(t.args[2])
    if t.op == "^":
        return _is_int(t.args[0]) and t.args[1].op == "c" and t.args[1].args[0].denominator == 1 and t.args[1].args[0] >= 0
    return False


class Abstraction(object):
    def __init__(self):
        self.mono = {}       # key (sorted factor ids) -> (var, factors)
        self.divs = {}       # key (x id, y id) -> (var, x, y)
        self.cache = {}
        self.n = 0

    def _fresh(self, prefix):
        self.n += 1
        return tm.var("%s$%d" % (prefix, self.n), "I")

    def mono_var(self, factors):
        factors = sorted(factors, key=lambda u: u.id)
        if len(factors) == 1:
            return factors[0]
        key = tuple(u.id for u in factors)
        if key not in self.mono:
            self.mono[key] = (self._fresh("mono"), factors)
        return self.mono[key][0]

    def abstract(self, t):
        t = tm.lift(t)
        r = self.cache.get(t.id)
        if r is not None:
            return r
        op = t.op
        if op in ("c", "v"):
            r = t
        elif op == "*" and _is_int(t):
            coeff = tm.ONE
            fs = []
            for a in t.args:
                a2 = self.abstract(a)
                if a2.op == "c":
                    coeff = tm.mk_mul(coeff, a2)
                else:
                    fs.append(a2)
            if len(fs) >= 2:
                r = tm.mk_mul(coeff, self.mono_var(fs))
            elif fs:
                r = tm.mk_mul(coeff, fs[0])
            else:
                r = coeff
        elif op == "^" and _is_int(t) and t.args[1].op == "c" and t.args[1].args[0] >= 2 and t.args[0].op != "c":
            b = self.abstract(t.args[0])
            r = self.mono_var([b] * int(t.args[1].args[0]))
        elif op == "f" and t.args[0] == "idiv" and tm.lift(t.args[2]).op != "c":
            x, y = self.abstract(t.args[1]), self.abstract(t.args[2])
            key = (x.id, y.id)
            if key not in self.divs:
                self.divs[key] = (self._fresh("quot"), x, y)
            r = self.divs[key][0]
        else:
            r = tm.rebuild(op, [self.abstract(a) if isinstance(a, T) else a for a in t.args])
        self.cache[t.id] = r
        return r

    def lemmas(self, max_pairs=4000):
        out = []
        ge0 = lambda u: tm.mk_le(tm.ZERO, u)
        # divisions first: they introduce the monomial y*q
        for key, (q, x, y) in list(self.divs.items()):
            yq = self.mono_var([y, q])
            pre = tm.mk_and(tm.mk_lt(tm.ZERO, y), ge0(x))
            out.append(tm.mk_implies(pre, tm.mk_and(tm.mk_le(yq, x), tm.mk_lt(x, yq + y), ge0(q))))
        monos = list(self.mono.items())
        for key, (m, fs) in monos:
            if len(fs) == 2:
                a, b = fs
                out.append(tm.mk_implies(tm.mk_and(ge0(a), ge0(b)), ge0(m)))
                out.append(tm.mk_implies(tm.mk_and(tm.mk_le(tm.ONE, a), ge0(b)), tm.mk_le(b, m)))
                out.append(tm.mk_implies(tm.mk_and(tm.mk_le(tm.ONE, b), ge0(a)), tm.mk_le(a, m)))
                out.append(tm.mk_implies(tm.mk_and(tm.mk_le(a, tm.ZERO), ge0(b)), tm.mk_le(m, tm.ZERO)))
                out.append(tm.mk_implies(tm.mk_and(tm.mk_le(b, tm.ZERO), ge0(a)), tm.mk_le(m, tm.ZERO)))
                out.append(tm.mk_implies(tm.mk_eq(a, tm.ZERO), tm.mk_eq(m, tm.ZERO)))
                out.append(tm.mk_implies(tm.mk_eq(b, tm.ZERO), tm.mk_eq(m, tm.ZERO)))
                out.append(tm.mk_implies(tm.mk_eq(a, tm.ONE), tm.mk_eq(m, b)))
                out.append(tm.mk_implies(tm.mk_eq(b, tm.ONE), tm.mk_eq(m, a)))
            else:
                out.append(tm.mk_implies(tm.mk_and(*[ge0(f) for f in fs]), ge0(m)))
        # monotonicity in one factor for monomials that share all other factors
        n = 0
        for (k1, (m1, f1)), (k2, (m2, f2)) in itertools.combinations(monos, 2):
            if len(f1) != len(f2):
                continue
            l1, l2 = list(f1), list(f2)
            common = []
            for u in list(l1):
                for w in l2:
                    if w is u:
                        common.append(u)
                        l1.remove(u)
                        l2.remove(w)
                        break
            if len(l1) != 1 or not common:
                continue
            n += 1
            if n > max_pairs:
                break
            a, a2 = l1[0], l2[0]
            F = self.mono_var(common) if len(common) > 1 else common[0]
            pre = tm.mk_and(*[ge0(f) for f in common])
            out.append(tm.mk_implies(pre, tm.mk_and(
                tm.mk_implies(tm.mk_le(a, a2), tm.mk_le(m1, m2)),
                tm.mk_implies(tm.mk_le(a2, a), tm.mk_le(m2, m1)),
                tm.mk_implies(tm.mk_le(a + 1, a2), tm.mk_le(m1 + F, m2)),
                tm.mk_implies(tm.mk_le(a2 + 1, a), tm.mk_le(m2 + F, m1)),
                tm.mk_implies(tm.mk_eq(a, a2), tm.mk_eq(m1, m2)))))
        return out


def check_sat_linearised(constraints, timeout_s=10.0, rounds=2):
    """('unsat', None, backend) when the linear abstraction with product lemmas is unsatisfiable, else ('unknown', ...)."""
    from . import smt
    ab = Abstraction()
    cs = [ab.abstract(c) for c in constraints]
    lem = []
    for _ in range(rounds):
        n0 = len(ab.mono)
        lem = [ab.abstract(l) for l in ab.lemmas()]
        if len(ab.mono) == n0:
            break
    r, env, be = smt.check_sat(cs + lem, timeout_s, use_cvc5=False)
    if r == "unsat":
        return ("unsat", None, "z3-lia+product-lemmas")
    return ("unknown", env if r == "sat" else None, be)


def check_sat_int(constraints, timeout_s=10.0):
    """Index-arithmetic satisfiability: linearised abstraction first (sound for unsat), exact nonlinear query otherwise."""
    from . import smt
    has_nl = any(u.op == "*" and sum(1 for a in u.args if a.op != "c") >= 2 or (u.op == "f" and u.args[0] == "idiv")
                 for c in constraints for u in tm.subterms(tm.lift(c)).values())
    if has_nl:
        r = check_sat_linearised(constraints, timeout_s)
        if r[0] == "unsat":
            return r
    return smt.check_sat(constraints, timeout_s)
