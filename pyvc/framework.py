"""Obligation bookkeeping, parallel driver, evidence, known findings, exit codes (DESIGN.md 2.7-2.9, 7).

A property check is a list of *units* (callables taking a Ctx).  A unit re-parses the repository source,
executes the functions under contract symbolically and registers obligations / canaries / conformance
samples / bounded stand-ins on the Ctx.  Units run in a fork pool; only plain records come back.

Exit codes: 0 all discharged (known findings printed) | 1 refuted obligation not in known_findings.json |
2 undecided | 3 checker inconsistency (canary not refuted, conformance mismatch, crash, obligation count drop,
refutation that does not replay).
"""
import hashlib
import json
import multiprocessing as mp
import os
import random
import sys
import time
import traceback
import zlib
from fractions import Fraction as Q

from . import terms as tm
from . import vc, smt
from .interp import Interp, Unsupported, PyRaise, PathLimit
from . import native as _native_mod

_native_mod.use_repo_sources()      # (no-op for /repo) experiments against a scratch tree import its Python sources from the first native call on

VERIF = os.path.dirname(os.path.dirname(os.path.abspath(__file__)))
REPO = os.environ.get("CIDERPRESS_REPO", "/repo")


def jsonable(x):
    if isinstance(x, Q):
        return str(x)
    if isinstance(x, dict):
        return {str(k): jsonable(v) for k, v in x.items()}
    if isinstance(x, (list, tuple)):
        return [jsonable(v) for v in x]
    if isinstance(x, (int, float, str, bool)) or x is None:
        return x
    return str(x)


class Ctx(object):
    """Per-unit context handed to contract code."""

    def __init__(self, pid, unit, tier, seed):
        self.pid = pid
        self.unit = unit
        self.tier = tier
        self.seed = seed
        self.rng = random.Random(zlib.crc32(unit.encode()) * 7919 + seed)
        self.records = []
        self.assumptions = []
        self.functions = {}
        self.timeout = 10.0 if tier == "quick" else 60.0
        self._interp = None

    # -- interpreter (one per unit; the source is parsed from REPO now)
    @property
    def interp(self):
        if self._interp is None:
            self._interp = Interp(REPO)
            self._interp.feasible_fn = lambda cs: smt.feasible(cs, 2.0)[0]
        return self._interp

    def note_functions(self):
        if self._interp is not None:
            for q, (path, line) in self._interp.functions_seen.items():
                self.functions[q] = os.path.relpath(path, REPO)

    def assume(self, text):
        if text not in self.assumptions:
            self.assumptions.append(text)

    def _rec(self, kind, name, verdict, functions=(), replay=None, sample=None):
        r = {"kind": kind, "name": "%s/%s" % (self.unit, name), "status": verdict.status, "backend": verdict.backend,
             "seconds": round(verdict.seconds, 4), "detail": verdict.detail, "witness": jsonable(verdict.witness),
             "functions": list(functions), "cases": verdict.cases}
        if sample is not None:
            r["sample"] = sample
        if verdict.status == "refuted" and kind in ("obligation", "bounded") and replay is not None:
            try:
                from . import native as _native
                _native.use_repo_sources()
                r["replay"] = jsonable(replay(verdict.witness))
            except Exception as e:  # replay harness failure is reported, not hidden
                r["replay"] = {"reproduced": None, "error": "%s: %s" % (type(e).__name__, e)}
        self.records.append(r)
        return r

    # -- obligations
    def equal(self, name, hyps, lhs, rhs, functions=(), replay=None):
        try:
            v = vc.decide_equal(hyps, lhs, rhs, self.timeout, self.rng)
        except vc.CheckerError as e:
            v = vc.Verdict("error", "checker", str(e))
        sample = None
        if len(self.records) < 2:
            sample = "%s |- %s = %s" % ([tm.show(h, 60) for h in hyps][:6], tm.show(tm.lift(lhs), 160), tm.show(tm.lift(rhs), 160))
        return self._rec("obligation", name, v, functions, replay, sample)

    def valid(self, name, hyps, goal, functions=(), replay=None):
        v = vc.decide_valid(hyps, goal, self.timeout)
        sample = None
        if len(self.records) < 2:
            sample = "%s |- %s" % ([tm.show(h, 60) for h in hyps][:6], tm.show(tm.lift(goal), 200))
        return self._rec("obligation", name, v, functions, replay, sample)

    def holds(self, name, ok, detail="", functions=(), witness=None, replay=None):
        """An obligation decided by the executor itself (finite enumeration, structural fact)."""
        v = vc.Verdict("discharged" if ok else "refuted", "enumeration", detail, witness=witness)
        return self._rec("obligation", name, v, functions, replay)

    def undecided(self, name, reason, functions=()):
        return self._rec("obligation", name, vc.Verdict("undecided", "engine", reason), functions)

    def canary(self, name, hyps, lhs, rhs):
        """A deliberately false variant: must be refuted."""
        try:
            v = vc.decide_equal(hyps, lhs, rhs, self.timeout, self.rng)
        except vc.CheckerError as e:
            v = vc.Verdict("error", "checker", str(e))
        return self._rec("canary", name, v)

    def canary_valid(self, name, hyps, goal):
        v = vc.decide_valid(hyps, goal, self.timeout)
        return self._rec("canary", name, v)

    def conformance(self, name, ok, detail=""):
        v = vc.Verdict("discharged" if ok else "error", "native", detail)
        return self._rec("conformance", name, v)

    def bounded(self, name, ok, bound, detail="", witness=None, replay=None):
        v = vc.Verdict("discharged" if ok else "refuted", "bounded[%s]" % bound, detail, witness=witness)
        return self._rec("bounded", name, v, (), replay)


_TODO = []


def _run_unit_idx(i):
    return _run_unit(_TODO[i])


def _run_unit(args):
    pid, name, fn, tier, seed = args
    ctx = Ctx(pid, name, tier, seed)
    t0 = time.time()
    try:
        fn(ctx)
    except Unsupported as e:
        ctx._rec("obligation", "__unit__", vc.Verdict("undecided", "engine", "left the supported subset: %s" % e))
    except PathLimit as e:
        ctx._rec("obligation", "__unit__", vc.Verdict("undecided", "engine", str(e)))
    except Exception as e:
        ctx._rec("obligation", "__unit__", vc.Verdict("error", "checker", "%s: %s\n%s" % (type(e).__name__, e, traceback.format_exc()[-1500:])))
    ctx.note_functions()
    return {"unit": name, "records": ctx.records, "assumptions": ctx.assumptions, "functions": ctx.functions,
            "seconds": time.time() - t0, "smt": dict(smt.STATS)}


def _run_pool(todo, nproc):
    """All units in a process pool.  A unit whose process dies (a native replay can crash the interpreter) must neither hang the check nor take the other units
    with it: units left unfinished by a broken pool are re-run one per process, and the one that dies again is reported as a checker error."""
    from concurrent.futures import ProcessPoolExecutor
    from concurrent.futures.process import BrokenProcessPool
    ctxm = mp.get_context("fork")
    results = [None] * len(todo)

    def died(i, why):
        pid, name = todo[i][0], todo[i][1]
        return {"unit": name, "records": [{"kind": "obligation", "name": "%s/__unit__" % name, "status": "error", "backend": "checker", "seconds": 0.0,
                                           "detail": "the process running this unit died (%s)" % why, "witness": None, "functions": [], "cases": 0}],
                "assumptions": [], "functions": {}, "seconds": 0.0, "smt": {}}
    pending = list(range(len(todo)))
    try:
        with ProcessPoolExecutor(max_workers=nproc, mp_context=ctxm) as ex:
            futs = {i: ex.submit(_run_unit_idx, i) for i in pending}
            for i, f in futs.items():
                try:
                    results[i] = f.result()
                except BrokenProcessPool:
                    pass
    except BrokenProcessPool:
        pass
    for i in [k for k in pending if results[k] is None]:
        try:
            with ProcessPoolExecutor(max_workers=1, mp_context=ctxm) as ex:
                results[i] = ex.submit(_run_unit_idx, i).result()
        except BrokenProcessPool as e:
            results[i] = died(i, "BrokenProcessPool: %s" % e)
    return results


def load_known(pid):
    p = os.path.join(VERIF, "known_findings.json")
    if not os.path.exists(p):
        return [], []
    d = json.load(open(p))
    open_ = [f for f in d.get("findings", []) if f.get("property") == pid]
    fixed = [f for f in d.get("fixed", []) if str(f).startswith("fixed: property=%s " % pid)]
    return open_, fixed


def source_hashes(functions):
    out = {}
    for rel in sorted(set(functions.values())):
        try:
            out[rel] = hashlib.sha256(open(os.path.join(REPO, rel), "rb").read()).hexdigest()[:16]
        except OSError:
            out[rel] = "missing"
    return out


def run_property(pid, level, units, explanation, trusted_base, min_obligations=1, argv=None, ns_pass=True):
    """Driver used by every /verif/contracts/<pid>.py"""
    argv = sys.argv[1:] if argv is None else argv
    tier = os.environ.get("VERIF_TIER", "quick")
    if "--tier" in argv:
        tier = argv[argv.index("--tier") + 1]
    seed = int(os.environ.get("VERIF_SEED", "0") or 0)
    only = argv[argv.index("--unit") + 1] if "--unit" in argv else None
    jobs = int(os.environ.get("VERIF_JOBS", "0") or 0) or min(16, os.cpu_count() or 1)
    t0 = time.time()
    todo = [(pid, n, f, tier, seed) for n, f in units if only is None or only in n]
    if jobs > 1 and len(todo) > 1:
        global _TODO
        _TODO = todo
        results = _run_pool(todo, min(jobs, len(todo)))
    else:
        results = [_run_unit(t) for t in todo]
    dump = argv[argv.index("--dump-records") + 1] if "--dump-records" in argv else None
    if dump is not None:
        # child of a thorough run (second generic extent): hand the raw unit results to the parent, write nothing else
        json.dump(jsonable(results), open(dump, "w"))
        return 0
    if tier == "thorough" and ns_pass and os.environ.get("VERIF_NS") is None and os.environ.get("VERIF_SECOND_PASS", "1") != "0":
        # thorough tier: every unit is regenerated with a second generic sample extent (NS = 3), so that a fact which holds only because an
        # axis has length 2 fails; the records are merged under names suffixed with ' @NS=3'
        import subprocess
        import tempfile
        os.makedirs(os.path.join(VERIF, ".build"), exist_ok=True)
        fd, tmp = tempfile.mkstemp(suffix=".json", dir=os.path.join(VERIF, ".build"))
        os.close(fd)
        env2 = dict(os.environ, VERIF_NS="3")
        try:
            cp = subprocess.run([sys.executable, os.path.abspath(sys.argv[0])] + [a for a in argv] + ["--dump-records", tmp], env=env2, cwd=VERIF,
                                capture_output=True, text=True, timeout=6 * 3600)
            second = json.load(open(tmp)) if os.path.getsize(tmp) > 0 else None
        except Exception as e:
            second, cp = None, None
        finally:
            if os.path.exists(tmp):
                os.unlink(tmp)
        if second is None:
            results.append({"unit": "__second_pass__", "records": [{"kind": "obligation", "name": "__second_pass__ (NS=3) ran", "status": "error", "backend": "checker", "seconds": 0.0,
                                                                    "detail": "the NS=3 pass did not produce records: %s" % ((cp.stderr[-400:] if cp is not None else "subprocess failed")),
                                                                    "witness": None, "functions": [], "cases": 0}], "assumptions": [], "functions": {}, "seconds": 0.0, "smt": {}})
        else:
            for r in second:
                r["unit"] = r["unit"] + " @NS=3"
                for rec in r["records"]:
                    rec["name"] = rec["name"] + " @NS=3"
            results.extend(second)
            trusted_base = list(trusted_base) + ["thorough tier: all units run twice, with generic sample extents NS = 2 and NS = 3 (records of the second run are suffixed ' @NS=3')"]
    records, assumptions, functions = [], list(trusted_base), {}
    smt_tot = {}
    for r in results:
        records.extend(r["records"])
        for a in r["assumptions"]:
            if a not in assumptions:
                assumptions.append(a)
        functions.update(r["functions"])
        for k, v in r["smt"].items():
            smt_tot[k] = smt_tot.get(k, 0) + v
    known_open, known_fixed = load_known(pid)
    obl = [r for r in records if r["kind"] == "obligation"]
    can = [r for r in records if r["kind"] == "canary"]
    conf = [r for r in records if r["kind"] == "conformance"]
    bnd = [r for r in records if r["kind"] == "bounded"]
    exit_code = 0
    lines = []
    violations = 0
    os.makedirs(os.path.join(VERIF, "replays", pid), exist_ok=True)

    def known(r):
        nm = r["name"][:-len(" @NS=3")] if r["name"].endswith(" @NS=3") else r["name"]
        for f in known_open:
            if f.get("obligation") == nm:
                return f
        return None

    errors = [r for r in records if r["status"] == "error"]
    for r in errors:
        lines.append("CHECKER-ERROR %s: %s" % (r["name"], r["detail"][:600]))
    for r in can:
        if r["status"] != "refuted":
            lines.append("CHECKER-ERROR canary %s was not refuted (%s): the obligation it guards may be vacuous" % (r["name"], r["status"]))
            errors.append(r)
    used_known = set()
    for r in obl + bnd:
        if r["status"] != "refuted":
            continue
        f = known(r)
        rp = r.get("replay")
        if rp is not None and rp.get("reproduced") is False:
            lines.append("CHECKER-ERROR refutation of %s does not replay on the real code: %s" % (r["name"], json.dumps(rp)[:400]))
            errors.append(r)
            continue
        if f is not None:
            if f["obligation"] not in used_known:
                lines.append("KNOWN-FINDING: property=%s %s [%s]" % (pid, f.get("what", ""), r["name"]))
            used_known.add(f["obligation"])
            continue
        violations += 1
        path = os.path.join(VERIF, "replays", pid, r["name"].replace("/", "__").replace(" ", "_")[:150] + ".json")
        json.dump({"property": pid, "obligation": r["name"], "status": r["status"], "backend": r["backend"],
                   "detail": r["detail"], "witness": r["witness"], "replay": rp, "functions": r["functions"]},
                  open(path, "w"), indent=1)
        tail = "" if (rp is not None and rp.get("reproduced")) else " no-failing-input-found"
        lines.append("VIOLATION property=%s replay=%s%s" % (pid, path, tail))
        lines.append("  obligation %s refuted by %s: %s" % (r["name"], r["backend"], r["detail"][:300]))
        if r["witness"]:
            lines.append("  witness %s" % json.dumps(r["witness"])[:400])
    und = [r for r in obl if r["status"] == "undecided"]
    for r in und:
        lines.append("UNDECIDED obligation=%s (%s): %s" % (r["name"], r["backend"], r["detail"][:300]))
    for f in known_open:
        if f["obligation"] not in used_known:
            lines.append("NOTE known finding no longer observed: %s" % f["obligation"])
    n_obl = len(obl)
    n_dis = sum(1 for r in obl if r["status"] == "discharged")
    if only is None and n_obl < min_obligations:
        lines.append("CHECKER-ERROR obligation count %d below the expected minimum %d (vacuity guard)" % (n_obl, min_obligations))
        errors.append({"name": "count"})
    if errors:
        exit_code = 3
    elif violations:
        exit_code = 1
    elif und:
        exit_code = 2
    wall = time.time() - t0
    by_backend = {}
    for r in obl:
        if r["status"] == "discharged":
            k = r["backend"]
            by_backend.setdefault(k, [0, 0.0])
            by_backend[k][0] += 1
            by_backend[k][1] += r["seconds"]
    n_known = sum(1 for r in obl if r["status"] == "refuted" and known(r) is not None)
    samples = [r["sample"] for r in obl if r.get("sample")][:6] or [r["name"] for r in obl[:6]]
    cov = {
        "obligations": n_obl,
        "discharged": n_dis,
        "refuted_known_findings": n_known,
        "refuted_new": violations,
        "undecided": len(und),
        "checker_cmd": "cd /verif && ./check %s --tier %s" % (pid, tier),
        "trusted_base": assumptions,
        "explanation": explanation,
        "by_backend": {k: {"obligations": v[0], "solver_s": round(v[1], 3)} for k, v in sorted(by_backend.items())},
        "smt_stats": {k: (round(v, 3) if isinstance(v, float) else v) for k, v in smt_tot.items()},
        "canaries": {"total": len(can), "refuted_as_required": sum(1 for r in can if r["status"] == "refuted")},
        "conformance_samples": len(conf),
        "bounded_stand_ins": [{"name": r["name"], "bound": r["backend"], "status": r["status"]} for r in bnd],
        "functions_under_contract": sorted(set(functions) | set(f for r in obl for f in r.get("functions", []))),
        "source_sha256_16": source_hashes(dict(list(functions.items()) + [(f, "ciderpress/" + f.split(":")[0]) for r in obl for f in r.get("functions", []) if f.startswith("lib/")])),
        "samples": samples,
        "undecided_list": [r["name"] for r in und],
        "known_findings": [r["name"] for r in obl if r["status"] == "refuted" and known(r) is not None],
        "fixed_findings": known_fixed,
        "units": [{"unit": r["unit"], "seconds": round(r["seconds"], 2), "records": len(r["records"])} for r in results],
        "evaluations": max(1, n_obl),
        "distinct_nontrivial": max(2, len(set(r["name"] for r in obl if r["backend"] != "syntactic"))),
        "rule": "one evaluation = one generated verification condition; distinct = distinct obligation names not closed syntactically",
    }
    ev = {"property_id": pid, "tier": tier, "seed": seed, "level": level, "coverage": cov,
          "assumptions": assumptions, "wall_s": round(wall, 2), "violations": violations}
    if only is None:
        os.makedirs(os.path.join(VERIF, "evidence"), exist_ok=True)
        json.dump(ev, open(os.path.join(VERIF, "evidence", pid + ".json"), "w"), indent=1)
    for l in lines:
        print(l)
    print("%s tier=%s: %d obligations, %d discharged, %d known findings, %d new refutations, %d undecided; "
          "%d canaries; %d conformance samples; %d bounded; %.1fs; exit %d"
          % (pid, tier, n_obl, n_dis, n_known, violations, len(und), len(can), len(conf), len(bnd), wall, exit_code))
    return exit_code
