"""Discharge of verification conditions (engine P).

decide_equal(hyps, lhs, rhs):   hyps |- lhs = rhs   over the reals
  1. case split on the guards of ite terms (each case checked feasible with z3 under hyps),
  2. exact normal form (pyvc.nf) of lhs - rhs; its side conditions (positivity of bases of fractional
     powers, non-zero denominators) are discharged by z3/cvc5 under hyps + case,
  3. when the normal form is non-zero: search a numeric witness (exact rationals + 40-digit mpmath for
     atoms) satisfying hyps + case -> 'refuted' with that witness; else ask z3/cvc5 directly,
  4. every normal-form 'equal' verdict is cross-checked numerically at random admissible points; a
     disagreement is a checker inconsistency (CheckerError), never a verdict.

decide_valid(hyps, goal): boolean goal, z3 then cvc5.

Verdicts: discharged / refuted (with witness env) / undecided (reason).
"""
import random
import time
from fractions import Fraction as Q

import mpmath

from . import terms as tm
from . import smt
from .nf import NF, NFError
from .terms import T


class CheckerError(Exception):
    pass


class Verdict(object):
    def __init__(self, status, backend, detail="", witness=None, seconds=0.0, cases=1):
        self.status = status        # discharged | refuted | undecided
        self.backend = backend
        self.detail = detail
        self.witness = witness
        self.seconds = seconds
        self.cases = cases

    def __repr__(self):
        return "<%s by %s %s>" % (self.status, self.backend, self.detail[:80])


MP = mpmath.mp.clone()
MP.dps = 40


def _bounds_from_hyps(hyps):
    """Very small interval analysis: var <op> const facts -> (lo, hi, lo_strict, hi_strict)."""
    b = {}

    def upd(name, lo=None, hi=None):
        cur = b.setdefault(name, [None, None])
        if lo is not None and (cur[0] is None or lo > cur[0]):
            cur[0] = lo
        if hi is not None and (cur[1] is None or hi < cur[1]):
            cur[1] = hi
    todo = list(hyps)
    while todo:
        h = todo.pop()
        if h.op == "and":
            todo.extend(h.args)
            continue
        if h.op in ("<", "<="):
            a, c = h.args
            if a.op == "v" and c.op == "c":
                upd(a.args[0], hi=c.args[0])
            elif a.op == "c" and c.op == "v":
                upd(c.args[0], lo=a.args[0])
    return b


def sample_env(variables, hyps, rng, tries=400, scale=3):
    """Random rational assignment satisfying hyps (rejection sampling guided by simple bounds)."""
    bounds = _bounds_from_hyps(hyps)
    for _ in range(tries):
        env = {}
        for v in variables:
            name, sort = v.args
            if name in ("pi", "inf", "nan"):
                continue
            lo, hi = bounds.get(name, [None, None])
            if sort == "B":
                env[name] = rng.random() < 0.5
                continue
            if sort == "I":
                l = int(lo) if lo is not None else -3
                h = int(hi) if hi is not None else l + 6
                env[name] = rng.randint(l, max(l, h))
                continue
            if lo is None and hi is None:
                lo, hi = Q(-scale), Q(scale)
            elif lo is None:
                lo = hi - 2 * scale
            elif hi is None:
                hi = lo + 2 * scale
            k = rng.randint(1, 997)
            env[name] = lo + (hi - lo) * Q(k, 998)
        try:
            if all(tm.evaluate(h, env, MP) for h in hyps):
                return env
        except (KeyError, ZeroDivisionError, ValueError, TypeError):
            continue
    return None


def env_to_q(env):
    out = {}
    for k, v in (env or {}).items():
        if isinstance(v, str):
            try:
                v = Q(v)
            except (ValueError, ZeroDivisionError):
                continue
        out[k] = v
    return out


def _numeric_diff(lhs, rhs, env):
    a = tm.evaluate(lhs, env, MP)
    b = tm.evaluate(rhs, env, MP)
    if isinstance(a, bool) or isinstance(b, bool):
        return (0 if a == b else 1), a, b
    d = abs(a - b)
    s = max(abs(a), abs(b), MP.mpf(1))
    return d / s, a, b


def _split_cases(hyps, terms, timeout_s, max_cases=64):
    """Yield (case_conditions, resolved_terms) for every feasible truth assignment of the ite guards."""
    out = []

    def rec(conds, ts):
        guards = []
        for t in ts:
            guards.extend(tm.ite_conditions(t))
        if not guards:
            out.append((conds, ts))
            return
        if len(out) > max_cases:
            raise CheckerError("too many piecewise cases")
        g = guards[0]
        # pick an atomic guard (no nested ite inside it, else resolve inner first)
        inner = tm.ite_conditions(g)
        if inner:
            g = inner[0]
        for val in (True, False):
            c = g if val else tm.mk_not(g)
            ok, _ = smt.feasible(list(hyps) + conds + [c], timeout_s=min(5.0, timeout_s), use_cvc5=True)
            if not ok:
                continue
            rec(conds + [c], [tm.assume_conditions(t, {g: val}) for t in ts])
    rec([], list(terms))
    return out


def definedness(*ts):
    """Conditions under which every operation of the (ite-free) terms is defined over the reals:
    non-zero bases of negative powers, non-negative (positive) bases of fractional (negative fractional /
    symbolic) powers, positive arguments of log."""
    out = []
    seen = {}
    for t in ts:
        tm.subterms(tm.lift(t), seen)
    for u in sorted(seen.values(), key=lambda u: u.id):
        if u.op == "^":
            b, e = u.args
            if b.op == "c" or (b.op == "v" and b.args[0] == "pi"):
                continue
            if e.op == "c":
                q = e.args[0]
                if q.denominator == 1:
                    if q < 0:
                        out.append(tm.mk_not(tm.mk_eq(b, tm.ZERO)))
                elif q > 0:
                    out.append(tm.mk_le(tm.ZERO, b))
                else:
                    out.append(tm.mk_lt(tm.ZERO, b))
            else:
                out.append(tm.mk_lt(tm.ZERO, b))
        elif u.op == "f" and u.args[0] == "log":
            out.append(tm.mk_lt(tm.ZERO, u.args[1]))
    return [c for c in dict.fromkeys(out) if c is not tm.TRUE]


def simplify_ite(hyps, t, timeout_s=3.0):
    """Resolve every ite guard of t that hyps decide (z3); other guards are left in place."""
    t = tm.lift(t)
    for _ in range(64):
        guards = tm.ite_conditions(t)
        progress = False
        for g in guards:
            if tm.ite_conditions(g):
                continue
            v, _, _ = smt.prove(hyps, g, timeout_s)
            if v == "valid":
                t = tm.assume_conditions(t, {g: True})
                progress = True
                break
            v, _, _ = smt.prove(hyps, tm.mk_not(g), timeout_s)
            if v == "valid":
                t = tm.assume_conditions(t, {g: False})
                progress = True
                break
        if not progress:
            break
    return t


def decide_equal(hyps, lhs, rhs, timeout_s=10.0, rng=None, n_cross=3, assume_defined=True):
    t0 = time.time()
    rng = rng or random.Random(0)
    lhs, rhs = tm.lift(lhs), tm.lift(rhs)
    if lhs is rhs:
        return Verdict("discharged", "syntactic", seconds=0.0)
    hyps = [h for h in hyps if h is not tm.TRUE]
    try:
        cases = _split_cases(hyps, [lhs, rhs], timeout_s)
    except CheckerError as e:
        return Verdict("undecided", "split", str(e), seconds=time.time() - t0)
    backends = set()
    if not cases:
        return Verdict("discharged", "z3", "vacuous: no feasible case", seconds=time.time() - t0, cases=0)
    for conds, (l, r) in cases:
        H = hyps + conds
        if l is r:
            backends.add("syntactic")
            continue
        if assume_defined:
            H = H + definedness(l, r)
        variables = tm.free_vars(tm.mk_add(l, r, *[tm.mk_ite(h, tm.ONE, tm.ZERO) for h in H]))
        nfc = NF()
        proved = False
        try:
            if nfc.equal(l, r):
                # side conditions
                bad = None
                for sc in nfc.side_terms():
                    if sc in H:
                        continue
                    v, env, be = smt.prove(H, sc, timeout_s)
                    if v != "valid":
                        bad = (sc, v, env)
                        break
                if bad is None:
                    proved = True
                    backends.add("nf+z3" if nfc.side else "nf")
                    # numeric cross-check of the normal-form verdict (also the non-vacuity witness of the domain)
                    got = 0
                    for _ in range(n_cross):
                        env = sample_env(variables, H, rng)
                        if env is None:
                            break
                        got += 1
                        try:
                            rel, a, b = _numeric_diff(l, r, env)
                        except (ZeroDivisionError, ValueError, KeyError, TypeError):
                            continue
                        if rel > MP.mpf(10) ** (-25):
                            raise CheckerError("normal form says equal, numeric evaluation differs: %s vs %s at %s" % (a, b, env))
                    if got == 0 and n_cross > 0:
                        ok, _ = smt.feasible(H, timeout_s)
                        r_, _, _ = smt.check_sat(H, timeout_s, use_cvc5=False)
                        if r_ != "sat":
                            return Verdict("undecided", "nf", "no admissible point found for the domain of this case (possible vacuity): %s" % [tm.show(h, 50) for h in H][:8],
                                           seconds=time.time() - t0, cases=len(cases))
        except NFError:
            pass
        if proved:
            continue
        # not proved by the normal form: look for a numeric witness
        wit = None
        for _ in range(40):
            env = sample_env(variables, H, rng)
            if env is None:
                break
            try:
                rel, a, b = _numeric_diff(l, r, env)
            except (ZeroDivisionError, ValueError, TypeError):
                continue
            except KeyError:
                break  # uninterpreted function: cannot evaluate
            if rel > MP.mpf(10) ** (-20):
                wit = dict(env)
                wit["__lhs__"] = str(a)
                wit["__rhs__"] = str(b)
                break
        if wit is not None:
            return Verdict("refuted", "nf+numeric", "lhs != rhs in case %s" % [tm.show(c, 80) for c in conds], witness=wit,
                           seconds=time.time() - t0, cases=len(cases))
        v, env, be = smt.prove(H, tm.mk_eq(l, r), timeout_s)
        if v == "valid":
            backends.add(be)
            continue
        if v == "invalid" and any(u.op == "sum" for u in tm.subterms(tm.mk_add(l, r)).values()):
            # bound sums are abstracted to unconstrained constants in the SMT encoding: its models are not counterexamples
            return Verdict("undecided", be, "normal form inconclusive; solver model is over the abstraction of bound sums", seconds=time.time() - t0, cases=len(cases))
        if v == "invalid":
            # exp/log/sqrt-like atoms are uninterpreted in the SMT encoding: a model is a counterexample only if the two sides
            # really differ when evaluated at it
            try:
                # the constant pi is a bounded variable of the SMT encoding: the re-evaluation uses the real one
                rel, a_, b_ = _numeric_diff(l, r, {k: v for k, v in env_to_q(env).items() if k != "pi"})
                if rel <= MP.mpf(10) ** (-20):
                    return Verdict("undecided", be, "normal form inconclusive; the solver model is an artefact of uninterpreted transcendental atoms "
                                   "(both sides evaluate to %s there)" % a_, seconds=time.time() - t0, cases=len(cases))
            except KeyError:
                pass   # genuinely uninterpreted functions: any model is an interpretation
            except (ZeroDivisionError, ValueError, TypeError):
                pass
            return Verdict("refuted", be, "smt model (case %s)" % [tm.show(c, 80) for c in conds], witness=env,
                           seconds=time.time() - t0, cases=len(cases))
        return Verdict("undecided", be, "normal form inconclusive and solver unknown: %s" % (env,), seconds=time.time() - t0, cases=len(cases))
    return Verdict("discharged", "+".join(sorted(backends)), seconds=time.time() - t0, cases=len(cases))


def decide_valid(hyps, goal, timeout_s=10.0):
    t0 = time.time()
    goal = tm.lift(goal)
    if goal is tm.TRUE:
        return Verdict("discharged", "syntactic")
    v, env, be = smt.prove([h for h in hyps if h is not tm.TRUE], goal, timeout_s)
    dt = time.time() - t0
    if v == "valid":
        return Verdict("discharged", be, seconds=dt)
    if v == "invalid":
        return Verdict("refuted", be, "smt model", witness=env, seconds=dt)
    return Verdict("undecided", be, str(env), seconds=dt)
