"""Native execution support for conformance checks and replays (DESIGN 2.7, 2.8).

The repository's baseline never builds its C libraries.  For replaying counterexamples and for model
conformance the real C sources of /repo's working tree are compiled on demand into /verif/.build/<hash>/
(hash of the C sources, so an edited tree is rebuilt and stale builds are removed) and
`ciderpress.lib.load_library` is redirected there *in this process only*.  Nothing under /repo is touched.
"""
import glob
import hashlib
import os
import shutil
import subprocess
import sys

VERIF = os.path.dirname(os.path.dirname(os.path.abspath(__file__)))
REPO = os.environ.get("CIDERPRESS_REPO", "/repo")
PYSCF_DEPS = "/venv/lib/python3.12/site-packages/pyscf/lib/deps"
_INSTALLED = [None]


def _sources():
    lib = os.path.join(REPO, "ciderpress", "lib")
    srcs = sorted(glob.glob(os.path.join(lib, "mod_cider", "*.[ch]")) + glob.glob(os.path.join(lib, "xc_utils", "*.[ch]"))
                  + glob.glob(os.path.join(lib, "fft_wrapper", "*.h")) + glob.glob(os.path.join(lib, "numint_cider", "*.[ch]")))
    return lib, srcs


def build_libs(verbose=False):
    lib, srcs = _sources()
    h = hashlib.sha256()
    for s in srcs:
        h.update(s.encode())
        h.update(open(s, "rb").read())
    key = h.hexdigest()[:16]
    root = os.path.join(VERIF, ".build")
    out = os.path.join(root, key)
    if os.path.exists(os.path.join(out, "libmcider.so")):
        return out
    os.makedirs(out + ".tmp%d" % os.getpid(), exist_ok=True)
    tmp = out + ".tmp%d" % os.getpid()
    csrc = [s for s in glob.glob(os.path.join(lib, "mod_cider", "*.c")) if os.path.basename(s) != "pbc_tools.c"]
    cmd = ["gcc", "-O1", "-fopenmp", "-shared", "-fPIC", "-w", "-I" + os.path.join(lib, "mod_cider"), "-I" + os.path.join(lib, "fft_wrapper")] + csrc + \
          ["-o", os.path.join(tmp, "libmcider.so"), "-lopenblas", "-lm"]
    p = subprocess.run(cmd, capture_output=True, text=True)
    if p.returncode != 0:
        shutil.rmtree(tmp, ignore_errors=True)
        raise RuntimeError("scratch build of libmcider failed:\n" + p.stderr[-2000:])
    cmd = ["gcc", "-O1", "-shared", "-fPIC", "-w", "-I" + os.path.join(PYSCF_DEPS, "include"), os.path.join(lib, "xc_utils", "libxc_baselines.c"),
           "-o", os.path.join(tmp, "libxc_utils.so"), "-L" + os.path.join(PYSCF_DEPS, "lib"), "-lxc", "-Wl,-rpath," + os.path.join(PYSCF_DEPS, "lib")]
    p = subprocess.run(cmd, capture_output=True, text=True)
    if p.returncode != 0 and verbose:
        sys.stderr.write("libxc_utils not built: %s\n" % p.stderr[-500:])
    cmd = ["gcc", "-O1", "-fopenmp", "-shared", "-fPIC", "-w", "-I" + os.path.join(lib, "mod_cider"), "-I/venv/lib/python3.12/site-packages/pyscf/lib",
           os.path.join(lib, "numint_cider", "nr_numint.c"), "-o", os.path.join(tmp, "libnumint_cider.so"), "-lopenblas", "-lm"]
    subprocess.run(cmd, capture_output=True, text=True)
    try:
        os.rename(tmp, out)
    except OSError:
        shutil.rmtree(tmp, ignore_errors=True)
    # remove stale builds (not while several trees are being checked at once: VERIF_KEEP_BUILDS)
    for d in ([] if os.environ.get("VERIF_KEEP_BUILDS") else glob.glob(os.path.join(root, "*"))):
        if os.path.basename(d) not in (key, "ast") and ".tmp" not in d:
            shutil.rmtree(d, ignore_errors=True)
    return out


def use_repo_sources():
    """Experiments against a scratch tree (CIDERPRESS_REPO): native replays import its Python sources too, not /repo's editable install."""
    if REPO != "/repo" and REPO not in sys.path:
        sys.path.insert(0, REPO)
        # replays that start a fresh interpreter (process-global caches, OMP_NUM_THREADS) must see the same tree
        os.environ["PYTHONPATH"] = REPO + (os.pathsep + os.environ["PYTHONPATH"] if os.environ.get("PYTHONPATH") else "")


def install_shim():
    """Redirect ciderpress.lib.load_library to the scratch build (idempotent)."""
    if _INSTALLED[0]:
        return _INSTALLED[0]
    out = build_libs()
    import numpy
    use_repo_sources()
    import ciderpress.lib.load as L
    orig = L.load_library

    def load_library(libname):
        p = os.path.join(out, libname + ".so")
        if os.path.exists(p):
            return numpy.ctypeslib.load_library(libname, out)
        return orig(libname)
    L.load_library = load_library
    import ciderpress.lib as CL
    CL.load_library = load_library
    _INSTALLED[0] = out
    return out
