"""SMT back ends for engine P: z3 (python API) first, cvc5 (CLI on the same SMT-LIB text) on unknown.

Encoding of terms (assumption A1: doubles are reals):
  rational powers  b^(p/q), q>1   ->  fresh A with  (b>=0 -> A>=0 and A^q = b^p)   [for p<0: A^q * b^|p| = 1, A>0]
  symbolic powers  b^e            ->  uninterpreted pw(b,e), constrained > 0 when b > 0
  exp(u)                          ->  uninterpreted exp_(u) constrained > 0 ; log, erf, gamma ... uninterpreted
  abs, max/min/ite                ->  If
  pi                              ->  real constant with 3.1415926 < pi < 3.1415927
Verdicts: 'valid' (negation unsat), 'invalid' (+ model), 'unknown'.
"""
import os
import subprocess
import tempfile
import time
from fractions import Fraction as Q

import z3

from . import terms as tm

STATS = {"z3_calls": 0, "z3_s": 0.0, "cvc5_calls": 0, "cvc5_s": 0.0, "z3_unknown": 0}


class Enc(object):
    def __init__(self):
        self.cache = {}
        self.vars = {}
        self.side = []
        self.fns = {}
        self.n_aux = 0

    def fn(self, name, arity):
        k = (name, arity)
        if k not in self.fns:
            self.fns[k] = z3.Function(name, *([z3.RealSort()] * (arity + 1)))
        return self.fns[k]

    def var(self, name, sort):
        k = (name, sort)
        if k not in self.vars:
            if sort == "I":
                v = z3.Int(name)
            elif sort == "B":
                v = z3.Bool(name)
            else:
                v = z3.Real(name)
                if name == "pi":
                    self.side.append(v > z3.RealVal("3.1415926"))
                    self.side.append(v < z3.RealVal("3.1415927"))
                if name == "inf":
                    self.side.append(v > z3.RealVal("1" + "0" * 300))
            self.vars[k] = v
        return self.vars[k]

    def real(self, e):
        if z3.is_int(e):
            return z3.ToReal(e)
        return e

    def enc(self, t):
        r = self.cache.get(t.id)
        if r is not None:
            return r
        op = t.op
        if op == "c":
            q = t.args[0]
            r = z3.IntVal(int(q)) if q.denominator == 1 else z3.RealVal(str(q))
        elif op == "v":
            r = self.var(t.args[0], t.args[1])
        elif op == "+":
            xs = [self.enc(a) for a in t.args]
            if any(z3.is_real(x) for x in xs):
                xs = [self.real(x) for x in xs]
            r = xs[0]
            for x in xs[1:]:
                r = r + x
        elif op == "*":
            xs = [self.enc(a) for a in t.args]
            if any(z3.is_real(x) for x in xs):
                xs = [self.real(x) for x in xs]
            r = xs[0]
            for x in xs[1:]:
                r = r * x
        elif op == "^":
            b, e = t.args
            zb = self.real(self.enc(b))
            if e.op == "c" and e.args[0].denominator == 1:
                n = int(e.args[0])
                if n >= 0:
                    r = z3.RealVal(1)
                    for _ in range(n):
                        r = r * zb
                else:
                    d = z3.RealVal(1)
                    for _ in range(-n):
                        d = d * zb
                    r = z3.RealVal(1) / d
            elif e.op == "c":
                p, q = e.args[0].numerator, e.args[0].denominator
                self.n_aux += 1
                A = z3.Real("pw!%d" % self.n_aux)

                def ipow(x, n):
                    y = z3.RealVal(1)
                    for _ in range(n):
                        y = y * x
                    return y
                if p > 0:
                    self.side.append(z3.Implies(zb >= 0, z3.And(A >= 0, ipow(A, q) == ipow(zb, p))))
                    self.side.append(z3.Implies(zb > 0, A > 0))
                else:
                    self.side.append(z3.Implies(zb > 0, z3.And(A > 0, ipow(A, q) * ipow(zb, -p) == 1)))
                r = A
            else:
                f = self.fn("pw_", 2)
                r = f(zb, self.real(self.enc(e)))
                self.side.append(z3.Implies(zb > 0, r > 0))
        elif op == "f":
            name = t.args[0]
            xs = [self.real(self.enc(a)) for a in t.args[1:]]
            if name in ("idiv", "imod"):
                ys = [self.enc(a) for a in t.args[1:]]
                ys = [y if z3.is_int(y) else z3.ToInt(y) for y in ys]
                r = (ys[0] / ys[1]) if name == "idiv" else (ys[0] % ys[1])
                self.cache[t.id] = r
                return r
            if name == "abs":
                r = z3.If(xs[0] < 0, -xs[0], xs[0])
            elif name == "floor":
                r = z3.ToReal(z3.ToInt(xs[0]))
            else:
                f = self.fn(name + "_", len(xs))
                r = f(*xs)
                if name == "exp":
                    self.side.append(r > 0)
                if name == "gamma":
                    self.side.append(z3.Implies(xs[0] > 0, r > 0))
        elif op == "fi":
            xs = [self.enc(a) for a in t.args[1:]]
            k = ("fi:" + t.args[0], len(xs))
            if k not in self.fns:
                self.fns[k] = z3.Function(t.args[0].replace(":", "_"), *([z3.IntSort()] * (len(xs) + 1)))
            xs = [x if z3.is_int(x) else z3.ToInt(x) for x in xs]
            r = self.fns[k](*xs)
            if not hasattr(self, "fi_apps"):
                self.fi_apps = []
            self.fi_apps.append((t.args[0], xs, r))
        elif op == "sum":
            # a bound sum is left uninterpreted (a fresh real constant per distinct sum term): proves less, never more
            self.n_aux += 1
            r = z3.Real("sum!%d" % t.id)
        elif op == "ite":
            a, b = self.enc(t.args[1]), self.enc(t.args[2])
            if z3.is_bool(a):
                r = z3.If(self.enc(t.args[0]), a, b)
            else:
                if z3.is_real(a) or z3.is_real(b):
                    a, b = self.real(a), self.real(b)
                r = z3.If(self.enc(t.args[0]), a, b)
        elif op in ("<", "<=", "=="):
            a, b = self.enc(t.args[0]), self.enc(t.args[1])
            if z3.is_bool(a) or z3.is_bool(b):
                r = a == b
            else:
                if z3.is_real(a) or z3.is_real(b):
                    a, b = self.real(a), self.real(b)
                r = (a < b) if op == "<" else (a <= b) if op == "<=" else (a == b)
        elif op == "and":
            r = z3.And(*[self.enc(a) for a in t.args])
        elif op == "or":
            r = z3.Or(*[self.enc(a) for a in t.args])
        elif op == "not":
            r = z3.Not(self.enc(t.args[0]))
        elif op == "T":
            r = z3.BoolVal(True)
        elif op == "F":
            r = z3.BoolVal(False)
        else:
            raise ValueError(op)
        self.cache[t.id] = r
        return r


def _model_to_env(enc, model):
    env = {}
    for (name, sort), v in enc.vars.items():
        val = model.eval(v, model_completion=True)
        try:
            if sort == "B":
                env[name] = z3.is_true(val)
            elif z3.is_int_value(val):
                env[name] = val.as_long()
            elif z3.is_rational_value(val):
                env[name] = Q(val.numerator_as_long(), val.denominator_as_long())
            elif z3.is_algebraic_value(val):
                a = val.approx(30)
                env[name] = Q(a.numerator_as_long(), a.denominator_as_long())
            else:
                env[name] = str(val)
        except Exception:  # pragma: no cover
            env[name] = str(val)
    # values of the integer table applications that occur in the query, at the model's argument values: "name[a, b]" -> value
    for name, xs, app in getattr(enc, "fi_apps", []):
        try:
            args = [model.eval(x, model_completion=True) for x in xs]
            val = model.eval(app, model_completion=True)
            if all(z3.is_int_value(a) for a in args) and z3.is_int_value(val):
                env["%s[%s]" % (name, ", ".join(str(a.as_long()) for a in args))] = val.as_long()
        except Exception:  # pragma: no cover
            pass
    return env


def check_sat(constraints, timeout_s=10.0, use_cvc5=True):
    """constraints: list of boolean terms.  Returns ('sat', env) | ('unsat', None) | ('unknown', reason)."""
    enc = Enc()
    zs = [enc.enc(c) for c in constraints]
    s = z3.Solver()
    s.set("timeout", int(timeout_s * 1000))
    for z in zs:
        s.add(z)
    for z in enc.side:
        s.add(z)
    t0 = time.time()
    r = s.check()
    STATS["z3_calls"] += 1
    STATS["z3_s"] += time.time() - t0
    if r == z3.unsat:
        return ("unsat", None, "z3")
    if r == z3.sat:
        return ("sat", _model_to_env(enc, s.model()), "z3")
    STATS["z3_unknown"] += 1
    if use_cvc5:
        txt = "(set-logic ALL)\n" + s.sexpr() + "\n(check-sat)\n"
        r2 = run_cvc5(txt, timeout_s)
        if r2 == "unsat":
            return ("unsat", None, "cvc5")
        if r2 == "sat":
            return ("sat", None, "cvc5")
    return ("unknown", s.reason_unknown(), "z3+cvc5")


def run_cvc5(smt2_text, timeout_s):
    t0 = time.time()
    STATS["cvc5_calls"] += 1
    try:
        with tempfile.NamedTemporaryFile("w", suffix=".smt2", delete=False) as f:
            f.write(smt2_text)
            path = f.name
        try:
            p = subprocess.run(["/usr/bin/cvc5", "--lang=smt2", "--tlimit=%d" % int(timeout_s * 1000), path],
                               capture_output=True, text=True, timeout=timeout_s + 5)
            out = p.stdout.strip().splitlines()
            return out[0].strip() if out else "unknown"
        finally:
            os.unlink(path)
    except Exception:
        return "unknown"
    finally:
        STATS["cvc5_s"] += time.time() - t0


def prove(hyps, goal, timeout_s=10.0):
    """hyps |- goal ?   -> ('valid', None, backend) | ('invalid', env, backend) | ('unknown', reason, backend)"""
    r, env, be = check_sat(list(hyps) + [tm.mk_not(goal)], timeout_s)
    if r == "unsat":
        return ("valid", None, be)
    if r == "sat":
        return ("invalid", env, be)
    return ("unknown", env, be)


def feasible(hyps, timeout_s=5.0, use_cvc5=False):
    """True unless the hypotheses are provably unsatisfiable."""
    r, env, be = check_sat(list(hyps), timeout_s, use_cvc5=use_cvc5)
    return r != "unsat", (env if r == "sat" else None)
