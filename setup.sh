#!/bin/sh
# Offline setup: overlay venv (python 3.12 = /venv's interpreter) with z3-solver, cvc5, jsonschema, mpmath
# from the local wheelhouse, plus a .pth that exposes /venv's site-packages (numpy, scipy, the repo's deps).
set -e
cd "$(dirname "$0")"
if [ ! -x .venv/bin/python ] || ! .venv/bin/python -c "import z3, cvc5, jsonschema, mpmath, numpy" 2>/dev/null; then
  rm -rf .venv
  /venv/bin/python -m venv .venv
  PIP_NO_INDEX=1 .venv/bin/pip install -q --no-index --find-links /opt/veriftools/wheels z3-solver cvc5 jsonschema mpmath
  echo "import site; site.addsitedir('/venv/lib/python3.12/site-packages')" > .venv/lib/python3.12/site-packages/zz_repo_venv.pth
fi
.venv/bin/python -c "import z3, cvc5, jsonschema, mpmath, numpy; print('setup ok: z3', z3.get_version_string())"
