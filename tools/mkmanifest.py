#!/usr/bin/env python3
"""Regenerate MANIFEST.json from the claims table below (keeps not_applicable current)."""
import json, os
HERE = os.path.dirname(os.path.dirname(os.path.abspath(__file__)))
props = [json.loads(l) for l in open(os.path.join(HERE, "properties.jsonl"))]
claims = json.load(open(os.path.join(HERE, "tools", "claims.json")))
checks = []
for pid, c in sorted(claims["checks"].items()):
    checks.append({
        "property_id": pid,
        "quick_cmd": "./check %s --tier quick" % pid,
        "thorough_cmd": "./check %s --tier thorough" % pid,
        "evidence_file": "evidence/%s.json" % pid,
        "replay_cmd_template": "./check %s --replay {path}" % pid,
        "engine": c.get("engine", "pyvc"),
        "level_claimed": {"category": c["level"], "text": c["text"], "design_ref": c.get("design_ref", "DESIGN.md 5.%s" % pid)},
        "level_note": c["note"],
        "technique": c["technique"],
    })
na = [{"property_id": p["id"], "reason": claims["not_applicable"].get(p["id"], "not yet built; will be claimed when its obligations discharge (DESIGN.md)")}
      for p in props if p["id"] not in claims["checks"]]
m = {"version": 1, "setup_cmd": "./setup.sh",
     "hooks": {"guard": "CIDERPRESS_VERIF", "enable": "none needed: contracts are sidecar files under /verif/contracts keyed by qualified function name; /repo carries no verification hooks",
               "baseline_off_cmd": "cd /repo && /venv/bin/python -m pytest -ra -q -p no:cacheprovider --timeout=900 --continue-on-collection-errors",
               "source_commits": [], "add_only": True},
     "engines": claims["engines"], "checks": checks, "notes": claims["notes"], "not_applicable": na}
json.dump(m, open(os.path.join(HERE, "MANIFEST.json"), "w"), indent=1)
print("MANIFEST.json: %d checks, %d not_applicable" % (len(checks), len(na)))
