#!/bin/sh
# Run every claimed check on the current tree (quick tier unless given) and print one line each.
cd "$(dirname "$0")/.."
tier=${1:-quick}
for pid in $(python3 -c "import json;print(' '.join(c['property_id'] for c in json.load(open('MANIFEST.json'))['checks']))"); do
  ./check $pid --tier $tier 2>&1 | tail -1 | cut -c1-200
done
