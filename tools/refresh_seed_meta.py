#!/usr/bin/env python3
"""Refresh seeded/<id>/meta.json from a tools/run_seeds.sh log: check_result := the verdict of the current checks; check_result_first is set once
(from the optional FIRST table below for round 3, else the value check_result had when the seed was filed) and never changed afterwards."""
import json
import os
import sys

FIRST_R3 = {"C12_4": 1, "C12_5": 1, "C12_6": 1, "C15_4": 1, "C15_5": 1, "C15_6": 1, "C11_4": 3, "C11_5": 1, "C11_6": 1, "C04_4": 0, "C04_5": 0, "C04_6": 1,
            "C08_4": 1, "C08_5": 0, "C08_6": 0, "C13_4": 0, "C13_5": 0, "C13_6": 1, "C07_4": 0, "C07_5": 0, "C07_6": 0, "C14_4": 0, "C14_5": 1, "C14_6": 1,
            "C18_4": 1, "C18_5": 0, "C18_6": 0, "C06_4": 0, "C06_5": 1, "C06_6": 0, "C02_4": 0, "C02_5": 1, "C02_6": 0}
root = os.path.join(os.path.dirname(os.path.abspath(__file__)), "..", "seeded")
log = {}
for line in open(sys.argv[1]):
    p = line.split()
    if len(p) >= 2 and p[1].startswith("exit="):
        log[p[0]] = p[1]
for n in sorted(os.listdir(root)):
    mp = os.path.join(root, n, "meta.json")
    if not os.path.exists(mp):
        continue
    m = json.load(open(mp))
    if m.get("check_result_first") is None:
        m["check_result_first"] = ["exit=%d" % FIRST_R3[n]] if n in FIRST_R3 else m.get("check_result")
    if n in log:
        m["check_result"] = [log[n]]
    json.dump(m, open(mp, "w"), indent=1)
print("seeds: %d, caught now: %d" % (len(log), sum(1 for v in log.values() if v == "exit=1")))
