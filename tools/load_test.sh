#!/bin/sh
# Run every claimed quick check concurrently (worst-case machine load) and report any verdict that is not exit 0.
cd "$(dirname "$0")/.."
mkdir -p .loadtest
for pid in $(python3 -c "import json;print(' '.join(c['property_id'] for c in json.load(open('MANIFEST.json'))['checks']))"); do
  ( ./check $pid --tier quick > .loadtest/$pid.log 2>&1; echo "$pid exit=$?" >> .loadtest/summary.txt ) &
done
wait
sort .loadtest/summary.txt; rm -f .loadtest/summary.txt
