#!/bin/sh
# tools/seedtest_wt.sh <patch.diff> <PID> <worktree> [extra check args]: like seedtest.sh, but the seeded change is applied in a scratch worktree and the
# check reads that tree (CIDERPRESS_REPO) — several properties can be tried at the same time; /repo is not touched.  First verdicts only: the recorded
# check_result of a seed comes from tools/seedtest.sh on /repo.
patch="$1"; pid="$2"; wt="$3"; shift 3
cd "$wt" || exit 9
git diff --quiet || { echo "$wt not clean"; exit 9; }
git apply "$patch" || { echo "patch does not apply"; exit 9; }
cd /verif
[ -f evidence/$pid.json ] && cp evidence/$pid.json /tmp/seedtest_wt.$$.ev
CIDERPRESS_REPO="$wt" VERIF_KEEP_BUILDS=1 ./check "$pid" "$@" > /tmp/seedtest_wt.$$.log 2>&1
rc=$?
[ -f /tmp/seedtest_wt.$$.ev ] && mv /tmp/seedtest_wt.$$.ev evidence/$pid.json
grep -E "^(VIOLATION|UNDECIDED|CHECKER-ERROR|KNOWN)" /tmp/seedtest_wt.$$.log | cut -c1-260 | head -8
tail -1 /tmp/seedtest_wt.$$.log | cut -c1-300
rm -f /tmp/seedtest_wt.$$.log
git -C "$wt" checkout -- .
echo "exit=$rc"
