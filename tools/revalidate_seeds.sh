#!/bin/sh
# Re-validate every filed seed against /repo's current HEAD in a scratch worktree: patch applies, demo passes without it and fails with it.
wt=${1:-/tmp/wt_reval}
git -C /repo worktree add --detach "$wt" HEAD -q || exit 9
for d in /verif/seeded/*/; do
  n=$(basename $d)
  cd "$wt" && git checkout -q -f HEAD -- . && git clean -qfd
  /venv/bin/python $d/demo.py >/dev/null 2>&1; r0=$?
  if git apply $d/patch.diff 2>/dev/null; then
    /venv/bin/python $d/demo.py >/dev/null 2>&1; r1=$?
    ap=ok
  else
    r1=NA; ap=DOES-NOT-APPLY
  fi
  echo "$n apply=$ap demo_without=$r0 demo_with=$r1"
done
cd /; git -C /repo worktree remove --force "$wt"
