#!/usr/bin/env python3
"""tools/replay_selftest.py — run native replays on the unchanged tree: each must report reproduced = False (a replay that 'reproduces' on a tree where the
property holds would turn any refutation of its unit into a confirmed violation).  Run under /verif/.venv:  .venv/bin/python tools/replay_selftest.py"""
import os
import sys
import warnings
sys.path.insert(0, os.path.join(os.path.dirname(os.path.abspath(__file__)), ".."))
warnings.filterwarnings("ignore")
from contracts import c01, c02, c05, c06, c07, c09, c11, c12, c14, c15, c18  # noqa: E402
from pyvc import native  # noqa: E402
native.install_shim()
import ciderpress.dft.baselines as B  # noqa: E402
TESTS = [
    ("c06.set_idx", lambda: c06.replay_set_idx({"ga_loc": [0, 2, 5, 9], "idx_map": [2, 8, 5, 4, 0, 1]})),
    ("c06.expgrid", lambda: c06.replay_expgrid("ciderpress.pyscf.sdmx")({})),
    ("c12.normlist_history", lambda: c12.replay_normlist_history("npa", 3)({})),
    ("c07.libxc_ss_frame", lambda: c07.replay_libxc_ss_frame(sorted(B.SS_GGA_CODES)[0])({})),
    ("c02.spline_index", lambda: c02.replay_spline_index()({})),
    ("c11.project_grid", lambda: c11.replay_project_grid(4, 41)({})),
    ("c11.rbf", lambda: c11.replay_rbf("rbf")({})),
    ("c11.antisym", lambda: c11.replay_rbf("antisym")({})),
    ("c11.spin", lambda: c11.replay_rbf("spin")({})),
    ("c14.load_ownership", lambda: c14.replay_load_ownership({})),
    ("c14.featlist", lambda: c14.replay_featlist({})),
    ("c15.int_composite", lambda: c15.replay_int_composite("2 * (rbf + rq)")({})),
    ("c15.kctrl", lambda: c15.replay_kctrl("POL")({})),
    ("c09.accumulators", lambda: c09.replay_accumulators("mod_cider/fast_sdmx.c", "SDMXcontract_smooth1")({"nctr": 2, "ngrids": 1, "nprim": 1})),
    ("c09.ylm_grad", lambda: c09.replay_ylm_grad_defined({"natm": 1, "ngrids": 3, "ylm_atom_loc[0]": 0, "ylm_atom_loc[1]": 1, "target_element": 3})),
    ("c18.evaluator_width", lambda: c18.replay_evaluator_width("spin", "SpinRBFEvaluator[DiffRBF]", -1)({})),
    ("c05.interp_chain", lambda: c05.replay_interp_chain(False)({})),
    ("c01.sdmx_plan", lambda: c01.replay_sdmx_plan_potential("SDMXPlan", 1, 1, 2)({})),
]
# every replay factory of contracts/ that can be called without a recipe object: none may report reproduced = True on the unchanged tree
import importlib
import inspect
ARGS = {"c02.replay_gto": [("gq", "se"), ("qg", "se_erf_rinv")], "c02.replay_gto_homogeneity": [("gq", "se")], "c02.replay_lp1_forward": [("add_lp1_term_fwd",)],
        "c03.replay_exponent": [(False, 1, False), (True, 2, True)], "c04.replay_wrapper1": [("NPOL", 1, True), ("POL", 2, False)], "c04.replay_wrapper2": [("SEP", 2, True)],
        "c05.replay_inplace": [("add_lp1_term_fwd", "add_lp1_term_bwd")], "c05.replay_plan_transform": [("gq",)], "c05.replay_atc_adjoint": [("multiply_atc_integrals",)],
        "c05.replay_interp_chain": [(True,)], "c06.replay_sph": [(3,)], "c06.replay_sph_cover": [(2,)], "c06.replay_gen_cache": [("CiderNumInt",)], "c07.replay_exponent": [(False, False)],
        "c07.replay_rhocut": [("j", "NPOL")], "c07.replay_libxc_ss": [(sorted(B.SS_GGA_CODES)[0],)], "c08.replay_zero_exponent": [(False, 1, False)],
        "c08.replay_baseline_definedness": [("_chachiyo_x_helper",)], "c08.replay_masked_definedness": [("NPOL", 2)], "c09.replay_chunk": [(2001,)], "c11.replay_extent": [("rbf",)],
        "c13.replay_fraclapl": [(0.5,)], "c13.replay_ueg_history": [("SDMXFullSettings",)], "c14.replay_roundtrip": [("UMap",)], "c15.replay_dftkernel": [("POL", 2)],
        "c15.replay_transform_frame": [(True, True)], "c15.replay_kctrl": [("NPOL",)], "c16.replay_fit": [(2, 5, True)], "c16.replay_mask": [("SEP",)],
        "ckernels.replay_kernel_value": [("evaluate_se_kernel_spin",)], "ckernels.replay_kernel": [("evaluate_se_kernel",)], "c18.replay_plan_new_guard": [(True, False)]}
for m in ("c01", "c02", "c03", "c04", "c05", "c06", "c07", "c08", "c09", "c11", "c12", "c13", "c14", "c15", "c16", "c18", "c19", "c20", "ckernels"):
    M = importlib.import_module("contracts." + m)
    for name, f in sorted(vars(M).items()):
        if not name.startswith("replay_") or not callable(f) or getattr(f, "__module__", "") != M.__name__:
            continue
        key = "%s.%s" % (m, name)
        if any(t[0].replace("c0", "c0").split(".")[-1] == name.replace("replay_", "") and t[0].startswith(m) for t in TESTS):
            continue
        sig = inspect.signature(f)
        if list(sig.parameters) == ["wit"]:
            continue        # needs a witness: covered by the explicit list above where one is known
        if not [p_ for p_ in sig.parameters.values() if p_.default is inspect._empty]:
            TESTS.append((key + "()", lambda f=f: f()({})))
        for a in ARGS.get(key, []):
            TESTS.append(("%s%s" % (key, a), lambda f=f, a=a: f(*a)({})))
bad = 0
for name, fn in TESTS:
    try:
        r = fn()
        ok = r.get("reproduced") in (False, None)     # None: the replay declines (documented); True on the unchanged tree is the defect looked for
    except Exception as e:  # a replay that cannot run on the clean tree is as useless as one that always fires
        r, ok = {"error": "%s: %s" % (type(e).__name__, str(e)[:200])}, False
    print("%-52s %s %s" % (name[:52], "ok" if ok else "BAD", "" if ok else str(r)[:200]))
    bad += 0 if ok else 1
sys.exit(1 if bad else 0)
