#!/bin/sh
# Run every filed seeded change against its property's quick check; one line each (expects exit=1 everywhere).
cd "$(dirname "$0")/.."
for d in seeded/*/; do
  n=$(basename $d); pid=${n%_*}
  r=$(tools/seedtest.sh "$(pwd)/$d/patch.diff" $pid --tier quick 2>&1 | tail -1)
  echo "$n $r"
done
