#!/bin/sh
# Run filed seeded changes against their property's quick check; one line each (expects exit=1 everywhere).
# tools/run_seeds.sh            every seed under seeded/
# tools/run_seeds.sh <glob>...  only the seeds whose directory name matches one of the shell patterns (e.g. 'C0[2-8]_1[0-2]')
cd "$(dirname "$0")/.."
for d in seeded/*/; do
  n=$(basename $d); pid=${n%_*}
  if [ $# -gt 0 ]; then
    keep=0
    for pat in "$@"; do case "$n" in $pat) keep=1;; esac; done
    [ $keep = 1 ] || continue
  fi
  r=$(tools/seedtest.sh "$(pwd)/$d/patch.diff" $pid --tier quick 2>&1 | tail -1)
  echo "$n $r"
done
