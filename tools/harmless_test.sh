#!/bin/sh
# Apply each semantics-preserving patch of harmless/ to /repo, run all quick checks concurrently, restore; then refresh evidence on the clean tree.
cd "$(dirname "$0")/.."
git -C /repo diff --quiet || { echo "/repo not clean"; exit 9; }
for p in harmless/*.diff; do
  git -C /repo apply "$(pwd)/$p" || { echo "$p does not apply"; continue; }
  echo "== $p"; tools/load_test.sh | grep -v "exit=0" || echo "all checks exit 0"
  git -C /repo checkout -- .
done
echo "== unchanged tree (evidence refresh)"; tools/load_test.sh | grep -v "exit=0" || echo "all checks exit 0"
