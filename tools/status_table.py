#!/usr/bin/env python3
"""Print the status table of DESIGN 9.1 from evidence/*.json, seeded/*/meta.json and known_findings.json."""
import glob
import json
import os

root = os.path.join(os.path.dirname(os.path.abspath(__file__)), "..")
kf = json.load(open(os.path.join(root, "known_findings.json")))
man = json.load(open(os.path.join(root, "MANIFEST.json")))
print("| id | level | obligations (quick) | seeds refuted | open findings |")
print("|----|-------|--------------------:|---------------|---------------|")
for c in man["checks"]:
    pid = c["property_id"]
    ev = json.load(open(os.path.join(root, "evidence", pid + ".json")))
    cov = ev["coverage"]
    nb = len(cov.get("bounded_stand_ins") or [])
    seeds = sorted(glob.glob(os.path.join(root, "seeded", pid + "_*", "meta.json")))
    caught = sum(1 for s in seeds if json.load(open(s)).get("check_result") == ["exit=1"])
    nopen = sum(1 for f in kf.get("findings", []) if f.get("property") == pid)
    print("| %s | %s | %s%s | %d/%d | %s |" % (pid, ev["level"], cov["obligations"], (" (+%s bounded)" % nb) if nb else "", caught, len(seeds), nopen or "–"))
