#!/usr/bin/env python3
"""tools/confirm_seed.py <seed_out_dir> <worktree> <PID> <name>: confirm a sub-agent's change in a scratch worktree
(tests pass with it, demo fails with it and passes without it), run our check against it on /repo, and file it under seeded/."""
import json, os, shutil, subprocess, sys
src, wt, pid, name = sys.argv[1:5]
extra = sys.argv[5:]
def sh(cmd, cwd=None):
    p = subprocess.run(cmd, shell=True, cwd=cwd, capture_output=True, text=True)
    return p.returncode, (p.stdout + p.stderr)
TESTS = "/venv/bin/python -m pytest -q -p no:cacheprovider --timeout=900 --continue-on-collection-errors ciderpress/dft/tests/test_feat_normalizer.py ciderpress/dft/tests/test_transform_data.py ciderpress/models/tests/test_kernels.py"
# bring the scratch worktree to /repo's current HEAD and re-base the sub-agent's patch onto it (3-way), so that what is
# confirmed, stored and checked is the change against the tree as it is now
sh("git reset -q --hard", wt)
head = sh("git rev-parse HEAD", "/repo")[1].strip()
sh("git checkout -q --detach %s" % head, wt)
rc, out = sh("git apply -3 %s/patch.diff" % src, wt); assert rc == 0, out
sh("git reset -q", wt)
rc, out = sh("git diff HEAD", wt)
open(os.path.join(src, "patch.diff"), "w").write(out)
rc_t, out_t = sh(TESTS, wt)
tests_line = [l for l in out_t.splitlines() if "passed" in l or "failed" in l][-1:]
rc_d1, out_d1 = sh("/venv/bin/python %s/demo.py" % src, wt)
sh("git checkout -- .", wt)
rc_d0, out_d0 = sh("/venv/bin/python %s/demo.py" % src, wt)
if os.environ.get("VERIF_SEED_IN_WT"):
    rc_c, out_c = sh("tools/seedtest_wt.sh %s/patch.diff %s %s %s" % (src, pid, wt, " ".join(extra)), "/verif")
else:
    rc_c, out_c = sh("tools/seedtest.sh %s/patch.diff %s %s" % (src, pid, " ".join(extra)), "/verif")
check_exit = [l for l in out_c.splitlines() if l.startswith("exit=")][-1:]
viol = [l for l in out_c.splitlines() if l.startswith("VIOLATION")][:3]
ok = rc_t == 0 and "143 passed" in " ".join(tests_line) and rc_d1 != 0 and rc_d0 == 0
meta = {"property": pid, "confirmed": ok, "tests_with_change": tests_line, "demo_exit_with_change": rc_d1, "demo_exit_without_change": rc_d0,
        "check_result": check_exit, "check_violation_lines": viol, "needs_to_manifest": open(os.path.join(src, "notes.md")).read()[:1500],
        "ran": [TESTS, "demo.py with / without patch in scratch worktree " + wt, "tools/seedtest.sh patch.diff " + pid]}
print(json.dumps({k: meta[k] for k in ("confirmed", "tests_with_change", "demo_exit_with_change", "demo_exit_without_change", "check_result")}))
if ok:
    dst = os.path.join("/verif/seeded", name)
    os.makedirs(dst, exist_ok=True)
    for f in ("patch.diff", "demo.py", "notes.md"):
        shutil.copy(os.path.join(src, f), dst)
    json.dump(meta, open(os.path.join(dst, "meta.json"), "w"), indent=1)
