#!/bin/sh
# tools/seedtest.sh <patch.diff> <PID> [extra check args]: apply a seeded change to /repo, run the check, undo.
patch="$1"; pid="$2"; shift 2
cd /repo || exit 9
git diff --quiet || { echo "/repo not clean"; exit 9; }
git apply "$patch" || { echo "patch does not apply"; exit 9; }
cd /verif
[ -f evidence/$pid.json ] && cp evidence/$pid.json /tmp/seedtest.$$.ev
./check "$pid" "$@" > /tmp/seedtest.$$.log 2>&1
rc=$?
# the evidence file must describe the unchanged tree, not the seeded one
[ -f /tmp/seedtest.$$.ev ] && mv /tmp/seedtest.$$.ev evidence/$pid.json
grep -E "^(VIOLATION|UNDECIDED|CHECKER-ERROR|KNOWN)" /tmp/seedtest.$$.log | cut -c1-260 | head -8
tail -1 /tmp/seedtest.$$.log | cut -c1-300
rm -f /tmp/seedtest.$$.log
git -C /repo checkout -- .
echo "exit=$rc"
